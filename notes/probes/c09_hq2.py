import z3, time, itertools
S = z3.StringSort()
H = z3.Function('H', S, S)
hexre = z3.Loop(z3.Union(z3.Range("0","9"), z3.Range("a","f")), 16, 16)
class Enc:
    def __init__(self): self.applied=[]; self.cons=[]; self.n=0
    def Hh(self, s):
        r = H(s); self.applied.append(s); self.cons.append(z3.Length(r) == 16); self.cons.append(z3.InRe(r, hexre)); return r
    def arranged(self, hs):
        """a fresh sequence that is some permutation of hs (abstraction of sorted())"""
        if len(hs) <= 1: return hs
        outs = [z3.String(f"p{self.n}_{i}") for i in range(len(hs))]; self.n += 1
        self.cons.append(z3.Or([z3.And([o == hs[j] for o, j in zip(outs, perm)]) for perm in itertools.permutations(range(len(hs)))]))
        return outs
    def string(self, t, labels):
        idx, ch = t
        hs = self.arranged([self.Hh(self.string(c, labels)) for c in ch])
        s = labels[idx]
        for h in hs: s = z3.Concat(s, h)
        return s
def iso(t1, L1, t2, L2):
    """z3 formula: labelled unordered trees isomorphic"""
    (i1, c1), (i2, c2) = t1, t2
    if len(c1) != len(c2): return z3.BoolVal(False)
    opts = []
    for perm in itertools.permutations(range(len(c2))):
        opts.append(z3.And([iso(a, L1, c2[j], L2) for a, j in zip(c1, perm)] + [z3.BoolVal(True)]))
    return z3.And(L1[i1] == L2[i2], z3.Or(opts) if opts else z3.BoolVal(True))
def size(t): return 1 + sum(size(c) for c in t[1])
def run(T1, T2, maxlen=None, name="", solver="z3"):
    e = Enc()
    L1 = [z3.String(f"a{i}") for i in range(size(T1))]; L2 = [z3.String(f"b{i}") for i in range(size(T2))]
    s1 = e.string(T1, L1); s2 = e.string(T2, L2)
    s = z3.Solver(); s.set("timeout", 120000)
    s.add(e.cons)
    for x, y in itertools.combinations(e.applied, 2):
        s.add(z3.Implies(x != y, H(x) != H(y)))
    s.add(s1 == s2, z3.Not(iso(T1, L1, T2, L2)))
    if maxlen: s.add([z3.Length(x) <= maxlen for x in L1 + L2])
    open(f"q_{name}.smt2", "w").write("(set-logic ALL)\n" + s.to_smt2())
    t = time.time(); r = s.check(); print(name, r, round(time.time()-t, 2))
    if str(r) == 'sat':
        m = s.model(); print("  ", [m.eval(x) for x in L1], [m.eval(x) for x in L2])
leaf = lambda i: (i, [])
run((0, [leaf(1)]), leaf(0), name="chain2_leaf")
run((0, [leaf(1)]), leaf(0), 8, name="chain2_leaf_8")
run((0, [leaf(1), leaf(2)]), (0, [(1, [leaf(2)])]), 8, name="fork_chain3_8")
run((0, [leaf(1), leaf(2)]), (0, [leaf(1), leaf(2)]), 8, name="fork_fork_8")
run((0, [leaf(1), leaf(2)]), (0, [leaf(1), leaf(2)]), None, name="fork_fork_unb")
run((0, [(1, [leaf(2)])]), (0, [(1, [leaf(2)])]), 8, name="chain3_chain3_8")
