"""Probe: concrete interpreter for the jq subset emitted by json_jq_converter, to be diffed against real jq."""
import json, re
class JQError(Exception): pass
TOK = re.compile(r'\s*(?:(?P<str>"(?:[^"\\]|\\.)*")|(?P<num>\d+(?:\.\d+)?)|(?P<var>\$[A-Za-z_][A-Za-z0-9_]*)|(?P<field>\.[A-Za-z_][A-Za-z0-9_]*)|(?P<op>//|==|!=|[.\[\](){}|,:+;])|(?P<id>[A-Za-z_][A-Za-z0-9_]*))')
def tokenize(s):
    out, i = [], 0
    s = s.rstrip()
    while i < len(s):
        m = TOK.match(s, i)
        if not m: raise SyntaxError(s[i:i+20])
        k = m.lastgroup; out.append((k, m.group(k))); i = m.end()
    return out
class P:
    def __init__(self, toks): self.t, self.i = toks, 0
    def peek(self, n=0): return self.t[self.i+n] if self.i+n < len(self.t) else (None, None)
    def eat(self, v=None, k=None):
        tk = self.peek()
        if (v is not None and tk[1] != v) or (k is not None and tk[0] != k): raise SyntaxError(f"expected {v or k} got {tk} at {self.i}")
        self.i += 1; return tk
    def pipe(self):
        left = self.comma()
        if self.peek() == ('id', 'as'):
            self.eat(); var = self.eat(k='var')[1]; self.eat('|'); body = self.pipe()
            return ('as', left, var, body)
        if self.peek()[1] == '|':
            self.eat(); return ('pipe', left, self.pipe())
        return left
    def comma(self):
        left = self.alt()
        while self.peek()[1] == ',':
            self.eat(); left = ('comma', left, self.alt())
        return left
    def alt(self):
        left = self.and_()
        if self.peek()[1] == '//':
            self.eat(); return ('alt', left, self.alt())
        return left
    def and_(self):
        left = self.cmp()
        while self.peek() in (('id', 'and'), ('id', 'or')):
            op = self.eat()[1]; left = (op, left, self.cmp())
        return left
    def cmp(self):
        left = self.add()
        if self.peek()[1] in ('==', '!='):
            op = self.eat()[1]; return (op, left, self.add())
        return left
    def add(self):
        left = self.post()
        while self.peek()[1] == '+':
            self.eat(); left = ('+', left, self.post())
        return left
    def post(self):
        e = self.primary()
        while True:
            k, v = self.peek()
            if k == 'field': self.eat(); e = ('field', e, v[1:])
            elif v == '.' and self.peek(1)[0] == 'str': self.eat(); e = ('field', e, json.loads(self.eat()[1]))
            elif v == '.' and self.peek(1)[1] == '[' and self.peek(2)[1] == ']': self.eat(); self.eat(); self.eat(); e = ('iter', e)
            elif v == '[' and self.peek(1)[1] == ']': self.eat(); self.eat(); e = ('iter', e)
            else: return e
    def primary(self):
        k, v = self.peek()
        if k == 'field': return ('id',)          # leave the field for post()
        if v == '.':
            if self.peek(1)[0] == 'str' or self.peek(1)[1] == '[': return ('id',)
            self.eat(); return ('id',)
        if k == 'var': self.eat(); return ('var', v)
        if k == 'str': self.eat(); return ('lit', json.loads(v))
        if k == 'num': self.eat(); return ('lit', json.loads(v))
        if v == '(':
            self.eat(); e = self.pipe(); self.eat(')'); return e
        if v == '[':
            self.eat()
            if self.peek()[1] == ']': self.eat(); return ('lit', [])
            e = self.pipe(); self.eat(']'); return ('collect', e)
        if v == '{':
            self.eat(); ents = []
            while True:
                if self.peek()[1] == '(':
                    self.eat(); ke = self.pipe(); self.eat(')')
                else: ke = ('lit', json.loads(self.eat(k='str')[1]))
                self.eat(':'); ve = self.alt(); ents.append((ke, ve))
                if self.peek()[1] == ',': self.eat(); continue
                break
            self.eat('}'); return ('object', ents)
        if (k, v) == ('id', 'if'):
            self.eat(); c = self.pipe(); self.eat('then'); a = self.pipe(); self.eat('else'); b = self.pipe(); self.eat('end'); return ('if', c, a, b)
        if (k, v) == ('id', 'try'):
            self.eat(); body = self.post(); h = None
            if self.peek() == ('id', 'catch'): self.eat(); h = self.post()
            return ('try', body, h)
        if (k, v) == ('id', 'null'): self.eat(); return ('lit', None)
        if k == 'id':
            self.eat(); args = []
            if self.peek()[1] == '(':
                self.eat(); args.append(self.pipe())
                while self.peek()[1] == ';': self.eat(); args.append(self.pipe())
                self.eat(')')
            return ('call', v, args)
        raise SyntaxError(f"unexpected {k} {v} at {self.i}")
def parse(s):
    p = P(tokenize(s)); e = p.pipe()
    if p.i != len(p.t): raise SyntaxError(f"trailing {p.t[p.i:p.i+5]}")
    return e
def truthy(v): return v is not None and v is not False
def tostring(v): return v if isinstance(v, str) else json.dumps(v, separators=(',', ':'))
def plus(a, b):
    if a is None: return b
    if b is None: return a
    if isinstance(a, bool) or isinstance(b, bool): raise JQError("bool add")
    if isinstance(a, (int, float)) and isinstance(b, (int, float)): return a + b
    if isinstance(a, str) and isinstance(b, str): return a + b
    if isinstance(a, list) and isinstance(b, list): return a + b
    if isinstance(a, dict) and isinstance(b, dict): return {**a, **b}
    raise JQError("cannot add")
def flatten(a):
    out = []
    for x in a: out.extend(flatten(x)) if isinstance(x, list) else out.append(x)
    return out
def ev(e, inp, env):
    t = e[0]
    if t == 'id': yield inp
    elif t == 'var': yield env[e[1]]
    elif t == 'lit': yield e[1]
    elif t == 'field':
        for v in ev(e[1], inp, env):
            if v is None: yield None
            elif isinstance(v, dict): yield v.get(e[2])
            else: raise JQError(f"Cannot index {type(v).__name__} with {e[2]}")
    elif t == 'iter':
        for v in ev(e[1], inp, env):
            if isinstance(v, list): yield from v
            elif isinstance(v, dict): yield from v.values()
            else: raise JQError("Cannot iterate")
    elif t == 'pipe':
        for v in ev(e[1], inp, env): yield from ev(e[2], v, env)
    elif t == 'as':
        for v in ev(e[1], inp, env): yield from ev(e[3], inp, {**env, e[2]: v})
    elif t == 'comma':
        yield from ev(e[1], inp, env); yield from ev(e[2], inp, env)
    elif t == 'alt':
        got = False
        try:
            for v in ev(e[1], inp, env):
                if truthy(v): got = True; yield v
        except JQError: pass
        if not got: yield from ev(e[2], inp, env)
    elif t in ('and', 'or'):
        for a in ev(e[1], inp, env):
            if t == 'and' and not truthy(a): yield False; continue
            if t == 'or' and truthy(a): yield True; continue
            for b in ev(e[2], inp, env): yield truthy(b)
    elif t in ('==', '!='):
        for b in ev(e[2], inp, env):
            for a in ev(e[1], inp, env):
                eq = (a == b) and (type(a) == type(b) or (isinstance(a, (int, float)) and isinstance(b, (int, float)) and not isinstance(a, bool) and not isinstance(b, bool)))
                yield eq if t == '==' else not eq
    elif t == '+':
        for b in ev(e[2], inp, env):
            for a in ev(e[1], inp, env): yield plus(a, b)
    elif t == 'collect': yield list(ev(e[1], inp, env))
    elif t == 'object':
        def rec(i, acc):
            if i == len(e[1]): yield dict(acc); return
            ke, ve = e[1][i]
            for k in ev(ke, inp, env):
                if not isinstance(k, str): raise JQError("Object keys must be strings")
                for v in ev(ve, inp, env): yield from rec(i + 1, acc + [(k, v)])
        yield from rec(0, [])
    elif t == 'if':
        for c in ev(e[1], inp, env): yield from ev(e[2] if truthy(c) else e[3], inp, env)
    elif t == 'try':
        try:
            yield from ev(e[1], inp, env)
        except JQError as x:
            if e[2] is not None: yield from ev(e[2], str(x), env)
    elif t == 'call':
        name, args = e[1], e[2]
        if name == 'tostring': yield tostring(inp)
        elif name == 'add':
            if not isinstance(inp, list): raise JQError("add on non-array")
            acc = None
            for x in inp: acc = plus(acc, x)
            yield acc
        elif name == 'flatten':
            if not isinstance(inp, list): raise JQError("flatten")
            yield flatten(inp)
        elif name in ('any', 'all'):
            if not isinstance(inp, (list, dict)): raise JQError("Cannot iterate")
            items = inp if isinstance(inp, list) else list(inp.values())
            res = [truthy(r) for x in items for r in ev(args[0], x, env)]
            yield any(res) if name == 'any' else all(res)
        elif name == 'join':
            for sep in ev(args[0], inp, env):
                if not isinstance(inp, list): raise JQError("join")
                parts = []
                for x in inp:
                    if x is None: parts.append("")
                    elif isinstance(x, (str, int, float, bool)): parts.append(tostring(x))
                    else: raise JQError("Cannot join")
                yield sep.join(parts)
        elif name == 'select':
            for c in ev(args[0], inp, env):
                if truthy(c): yield inp
        else: raise NotImplementedError(name)
    else: raise NotImplementedError(t)
def run(prog, doc): return list(ev(parse(prog), doc, {}))
