import z3, time
from cap import h   # captured statements (module executes capture at import)
from sa2smt import *
stmts = h.session.stmts
for _s in stmts: print(resolve_froms(_s)[:60].replace(chr(10),' '))
print(len(FROMS))
COLS = ["job_name","job_id","event_type","event_id","start_timestamp","end_timestamp","parent_event_id"]
def run(N, mutate=False):
    nodes = SymTable("nodes", COLS, N, "pre"); assoc = SymTable("NODE_ASSOCIATION", ["parent_id","child_id"], N, "pre")
    db = DB([nodes, assoc])
    pre = []
    # store invariant: unique event ids; assoc == {(parent, id)}
    for i in range(N):
        for j in range(i+1, N):
            pre.append(z3.Implies(z3.And(nodes.present[i], nodes.present[j]), nodes.val[i]["event_id"] != nodes.val[j]["event_id"]))
        pre.append(assoc.present[i] == z3.And(nodes.present[i], z3.Not(nodes.null[i]["parent_event_id"])))
        pre.append(assoc.val[i]["parent_id"] == nodes.val[i]["parent_event_id"]); pre.append(assoc.val[i]["child_id"] == nodes.val[i]["event_id"])
    w0, w1 = z3.Ints("w0 w1")
    # window delete stmt: substitute sentinel binds
    stmt = stmts[1]
    from sqlalchemy.sql import visitors
    def repl(b):
        if isinstance(b, BindParameter) and b.value == 1111: b.value = w0
        if isinstance(b, BindParameter) and b.value == 9999: b.value = w1
    for el in visitors.iterate(stmt): repl(el)
    new, cons = apply_delete(db, stmt, "post")
    # spec
    spec = []
    for i in range(N):
        inwin = z3.Or([z3.And(nodes.present[j], nodes.val[j]["job_id"] == nodes.val[i]["job_id"],
                      z3.Or(z3.And(w0 <= nodes.val[j]["start_timestamp"], nodes.val[j]["start_timestamp"] <= w1),
                            z3.And(w0 <= nodes.val[j]["end_timestamp"], (nodes.val[j]["end_timestamp"] <= w1) if not mutate else (nodes.val[j]["end_timestamp"] < w1)))) for j in range(N)])
        spec.append(new.present[i] == z3.And(nodes.present[i], inwin))
    s = z3.Solver(); s.add(pre + cons + [z3.Not(z3.And(spec))])
    t = time.time(); r = s.check(); print("window N=%d mutate=%s:" % (N, mutate), r, round(time.time()-t, 2))
    if str(r) == "sat":
        m = s.model()
        print(" w=", m[w0], m[w1], [(m.eval(nodes.present[i]), m.eval(nodes.val[i]["job_id"]), m.eval(nodes.val[i]["start_timestamp"]), m.eval(nodes.val[i]["end_timestamp"])) for i in range(N)])
    # inconsistent jobs delete
    nodes2 = SymTable("nodes", COLS, N, "pre"); db2 = DB([nodes, assoc])
    new, cons = apply_delete(db2, stmts[0], "post2")
    spec = []
    for i in range(N):
        bad = z3.Or([z3.And(nodes.present[j], nodes.val[j]["job_id"] == nodes.val[i]["job_id"], z3.Not(nodes.null[j]["parent_event_id"]) if not mutate else z3.BoolVal(True),
                     z3.Not(z3.Or([z3.And(nodes.present[k], nodes.val[k]["event_id"] == nodes.val[j]["parent_event_id"]) for k in range(N)]))) for j in range(N)])
        spec.append(new.present[i] == z3.And(nodes.present[i], z3.Not(bad)))
    s = z3.Solver(); s.add(pre + cons + [z3.Not(z3.And(spec))])
    t = time.time(); r = s.check(); print("inconsistent N=%d:" % N, r, round(time.time()-t, 2))
for N in (3, 4, 5): run(N)
run(3, mutate=True)
