import logging
from tel2puml.otel_to_pv.data_holders.sql_data_holder.sql_dataholder import SQLDataHolder
from sqlalchemy.dialects import sqlite

class Rec:
    def __init__(self): self.stmts=[]
    def __enter__(self): return self
    def __exit__(self,*a): pass
    def execute(self, stmt, *a, **k):
        self.stmts.append(stmt)
        class R: rowcount=0
        return R()
    def commit(self): pass

h = SQLDataHolder.__new__(SQLDataHolder)
h._min_timestamp = 1111; h._max_timestamp = 9999; h.time_buffer = 0
h.session = Rec()
h.remove_inconsistent_jobs(); h.remove_jobs_outside_of_time_window(); h.update_job_names_by_root_span()
for s in []:
    print(type(s).__name__)
    print(s.compile(dialect=sqlite.dialect(), compile_kwargs={"literal_binds": True}))
    print()
def dump(e, ind=0):
    print(" "*ind + type(e).__name__, getattr(e,'operator',None) and getattr(e.operator,'__name__',e.operator), getattr(e,'name',''), getattr(e,'value','') if type(e).__name__=='BindParameter' else '')
    for c in e.get_children():
        dump(c, ind+2)
pass
