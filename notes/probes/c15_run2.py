import sys, logging
from tel2puml.otel_to_pv.data_holders.sql_data_holder.sql_dataholder import SQLDataHolder
from tel2puml.otel_to_pv.config import SQLDataHolderConfig
from tel2puml.otel_to_pv.otel_to_pv_types import OTelEvent
h = SQLDataHolder(SQLDataHolderConfig(db_uri="sqlite:////tmp/probe/c15/t2.db", batch_size=int(sys.argv[1]), time_buffer=0))
def ev(job, eid, par, et="T"):
    return OTelEvent(job_name="n", job_id=job, event_type=et, event_id=eid, start_timestamp=10, end_timestamp=20, application_name="a", parent_event_id=par)
with h:
    # job X: inconsistent (x2's parent 'missing' absent) ; job Y fine
    for e in [ev("X","x1",None), ev("X","x2","x1"), ev("X","x3","missing"), ev("Y","y1",None), ev("Y","y2","y1")]:
        h.save_data(e)
h.remove_inconsistent_jobs(); h.remove_jobs_outside_of_time_window(); h.update_job_names_by_root_span()
print([ (n, [[(e.event_id, e.child_event_ids) for e in j] for j in js]) for n, js in h.stream_data()])
