from itertools import groupby
from types import SimpleNamespace as NS
from typing import List

def stream(rows):
    # same shape as SQLDataHolder.stream_data
    gen = (r for r in rows)
    for job_name, job_name_group in groupby(gen, key=lambda x: x.job_name):
        otel_event_gen = ((event for event in job_id_group) for _, job_id_group in groupby(job_name_group, key=lambda x: x.job_id))
        yield job_name, otel_event_gen

def check(n0: int, n1: int, n2: int, n3: int, j0: int, j1: int, j2: int, j3: int) -> bool:
    """
    pre: 0 <= n0 <= n1 <= n2 <= n3 <= 1
    pre: 0 <= j0 <= 2 and 0 <= j1 <= 2 and 0 <= j2 <= 2 and 0 <= j3 <= 2
    post: _
    """
    rows = [NS(job_name=n, job_id=j, event_id=i) for i, (n, j) in enumerate(zip((n0, n1, n2, n3), (j0, j1, j2, j3)))]
    rows.sort(key=lambda r: (r.job_name, r.job_id))
    seen_names = []
    out = {}
    for name, jobs in stream(rows):
        if name in seen_names: return False
        seen_names.append(name)
        for job in jobs:
            evs = [e.event_id for e in job]
            out.setdefault((name, rows[0].job_id if False else None), [])
            out[(name, len(out))] = evs
    total = sum(len(v) for v in out.values())
    return total == 4
