import z3, sys
from fwd import query, K
from datetime import datetime, UTC
sys.path.insert(0, "/repo")
from tel2puml.utils import unix_nano_to_pv_string
# vacuity twins
for e in (9, 20, 40, 53, 58, 61):
    r = query(e, K, neq=False)
    print("reach", e, r[0], r[1], r[2][z3.Int('k')] if r[2] else None)
# beyond the bound: year 2262 ~ 2^63 ns
K2 = 9223372036 * 10**6
for e in (62,):
    r = query(e, K2)
    print("beyond", e, r[0], r[1])
    if r[2]:
        k = r[2][z3.Int('k')].as_long()
        n = 1000 * k
        print(" k=", k, " real:", unix_nano_to_pv_string(n), " expected us:", k % 10**6, " sec:", k // 10**6)
