from itertools import permutations
from tel2puml.events import EventSet, Event
NAMES = ["A", "B", "C"]
PERMS = {n: list(permutations(range(n))) for n in range(4)}

def eventset_perm(x0: int, x1: int, x2: int, n: int, p: int) -> bool:
    """
    pre: 0 <= x0 < 3 and 0 <= x1 < 3 and 0 <= x2 < 3 and 0 <= n <= 3 and 0 <= p < 6
    post: _
    """
    a = [NAMES[x] for x in (x0, x1, x2)[:n]]
    perm = PERMS[n][p % len(PERMS[n])]
    b = [a[k] for k in perm]
    ea, eb = EventSet(a), EventSet(b)
    ref = sorted((m, a.count(m)) for m in set(a))
    return ea == eb and hash(ea) == hash(eb) and sorted(ea.items()) == ref and sorted(ea.to_list()) == sorted(a)
