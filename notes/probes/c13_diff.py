import json, random, yaml, jq, sys, copy
from jqsub import run, JQError
from tel2puml.otel_to_pv.data_sources.json_data_source.json_jq_converter import field_mapping_to_jq_query
fm = yaml.safe_load('''
    job_name:
        key_paths: ["resource_spans.[].resource.attributes.[].key"]
        key_value: [service.name]
        value_paths: [value.Value.StringValue]
        value_type: string
    job_id:
        key_paths: ["resource_spans.[].scope_spans.[].spans.[].trace_id"]
        value_type: string
    event_type:
        key_paths: [
            "resource_spans.[].scope_spans.[].spans.[].name",
            [
                "resource_spans.[].scope_spans.[].spans.[].not_here",
                "resource_spans.[].scope_spans.[].spans.[].attributes.[].key"
            ]
        ]
        key_value: [null, [null, http.status_code]]
        value_paths: [null, [null, value.Value.IntValue]]
        value_type: string
    event_id:
        key_paths: ["resource_spans.[].scope_spans.[].spans.[].span_id"]
        value_type: string
    start_timestamp:
        key_paths: ["resource_spans.[].scope_spans.[].spans.[].start_time_unix_nano"]
        value_type: string
    end_timestamp:
        key_paths: ["resource_spans.[].scope_spans.[].spans.[].end_time_unix_nano"]
        value_type: string
    application_name:
        key_paths: ["resource_spans.[].scope_spans.[].scope.name"]
        value_type: string
    parent_event_id:
        key_paths: ["resource_spans.[].scope_spans.[].spans.[].parent_span_id"]
        value_type: string
    child_event_ids:
        key_paths: ["resource_spans.[].scope_spans.[].spans.[].child_span_ids"]
        value_type: array
''')
q = field_mapping_to_jq_query(fm); print(len(q), q[:120])
cj = jq.compile(q)
rnd = random.Random(1)
LEAVES = [None, False, True, 0, 17, "x", "", "service.name", [], {}, ["a"], {"k": 1}, 1.5]
def mut(v, depth=0):
    r = rnd.random()
    if isinstance(v, dict):
        out = {}
        for k, x in v.items():
            if rnd.random() < 0.12: continue
            out[k] = mut(x, depth + 1)
        if rnd.random() < 0.05: return rnd.choice(LEAVES)
        return out
    if isinstance(v, list):
        n = rnd.choice([0, 1, 1, 2, 2, 3])
        if not v: return []
        out = [mut(copy.deepcopy(rnd.choice(v)), depth + 1) for _ in range(n)]
        if rnd.random() < 0.05: return rnd.choice(LEAVES)
        return out
    return rnd.choice(LEAVES) if r < 0.25 else v
base = {"resource_spans": [{"resource": {"attributes": [{"key": "service.name", "value": {"Value": {"StringValue": "App"}}}, {"key": "service.version", "value": {"Value": {"StringValue": "1.0"}}}]},
  "scope_spans": [{"scope": {"name": "G1"}, "spans": [{"trace_id": "t1", "span_id": "s1", "parent_span_id": None, "name": "/d", "kind": 2, "start_time_unix_nano": 1, "end_time_unix_nano": 2, "child_span_ids": ["s2"],
     "attributes": [{"key": "app.operation", "value": {"Value": {"StringValue": "OP"}}}, {"key": "http.status_code", "value": {"Value": {"IntValue": "200"}}}]},
     {"trace_id": "t2", "span_id": "s2", "name": "/p", "start_time_unix_nano": 3, "end_time_unix_nano": 4, "attributes": [{"key": "http.status_code", "value": {"Value": {"IntValue": 404}}}]}]}]}]}
bad = 0; n = int(sys.argv[1]) if len(sys.argv) > 1 else 3000; errs = 0
for i in range(n):
    doc = base if i == 0 else mut(copy.deepcopy(base))
    try: real = ("ok", cj.input_value(doc).all())
    except ValueError as e: real = ("err", None)
    try: mine = ("ok", run(q, doc))
    except JQError as e: mine = ("err", None)
    if real[0] == "err": errs += 1
    if real != mine:
        bad += 1
        if bad <= 5: print("DIFF", json.dumps(doc)[:400], "\n real", real, "\n mine", mine)
print("docs", n, "disagreements", bad, "jq-errors", errs)
