"""Prototype: bounded relational z3 semantics for the SQLAlchemy statements built by SQLDataHolder cleaning methods."""
import z3
from sqlalchemy.sql import operators as ops
from sqlalchemy.sql.elements import (BinaryExpression, BooleanClauseList, BindParameter, UnaryExpression,
    ColumnClause, Grouping, Null, FunctionFilter, Label, ClauseList)
from sqlalchemy.sql.selectable import Select, Subquery, Join, ScalarSelect, Exists, Alias, TableClause
from sqlalchemy.sql.schema import Column, Table
from sqlalchemy.sql.dml import Delete, Update
from sqlalchemy.sql.functions import count as count_fn

NULLABLE = {("nodes", "parent_event_id")}

class SymTable:
    def __init__(self, name, cols, n, tag):
        self.name, self.cols, self.n = name, cols, n
        self.present = [z3.Bool(f"{tag}_{name}_{i}_p") for i in range(n)]
        self.val = [{c: z3.Int(f"{tag}_{name}_{i}_{c}") for c in cols} for i in range(n)]
        self.null = [{c: (z3.Bool(f"{tag}_{name}_{i}_{c}_null") if (name, c) in NULLABLE else z3.BoolVal(False)) for c in cols} for i in range(n)]
    def rows(self):
        return [(self.present[i], {c: (self.val[i][c], self.null[i][c]) for c in self.cols}) for i in range(self.n)]

class DB:
    def __init__(self, tables): self.t = {t.name: t for t in tables}

# A relation value: list of (guard, env) where env maps (source_key, colname) -> (val, isnull)
def eval_from(db, f, outer):
    if isinstance(f, Join):
        L = eval_from(db, f.left, outer); R = eval_from(db, f.right, outer)
        out = []
        for g1, e1 in L:
            for g2, e2 in R:
                env = {**e1, **e2}
                out.append((z3.And(g1, g2, truth(eval_expr(db, f.onclause, {**outer, **env}))), env))
        return out
    if isinstance(f, (Subquery, Alias)) and isinstance(f.element, Select):
        rel = eval_select(db, f.element, {k: v for k, v in outer.items() if k != "__scope__"})
        return [(g, {(id(f), name): v for name, v in row.items()}) for g, row in rel]
    if isinstance(f, Table):
        return [(g, {(f.name, c): v for c, v in row.items()}) for g, row in db.t[f.name].rows()]
    raise NotImplementedError(type(f))

def col_lookup(c, env):
    t = c.table
    key = (t.name, c.name) if isinstance(t, Table) else (id(t), c.name)
    if key not in env: raise KeyError(f"unbound column {c} {key}")
    return env[key]

# 3-valued: expression value = (val, isnull); boolean = (t, isnull) ; truth() = t and not null
def truth(b): return z3.And(b[0], z3.Not(b[1]))
F = z3.BoolVal(False)

def eval_expr(db, e, env):
    if isinstance(e, Grouping): return eval_expr(db, e.element, env)
    if isinstance(e, Label): return eval_expr(db, e.element, env)
    if isinstance(e, Column) or isinstance(e, ColumnClause): return col_lookup(e, env)
    if isinstance(e, BindParameter):
        v = e.value
        if isinstance(v, z3.ExprRef): return (v, F)
        if v is None: return (z3.IntVal(0), z3.BoolVal(True))
        return (z3.IntVal(v), F)
    if isinstance(e, Null): return (z3.IntVal(0), z3.BoolVal(True))
    if isinstance(e, BooleanClauseList):
        parts = [eval_expr(db, c, env) for c in e.clauses]
        if e.operator is ops.and_:
            t = z3.And([truth(p) for p in parts]); f = z3.Or([z3.And(z3.Not(p[0]), z3.Not(p[1])) for p in parts])
        else:
            t = z3.Or([truth(p) for p in parts]); f = z3.And([z3.And(z3.Not(p[0]), z3.Not(p[1])) for p in parts])
        return (t, z3.And(z3.Not(t), z3.Not(f)))
    if isinstance(e, UnaryExpression):
        if e.operator is ops.inv:
            b = eval_expr(db, e.element, env); return (z3.Not(b[0]), b[1])
        if e.operator is ops.exists:
            sel = e.element
            while isinstance(sel, (Grouping, ScalarSelect)): sel = sel.element
            rel = eval_select(db, sel, env, proj=False)
            return (z3.Or([g for g, _ in rel]) if rel else F, F)
        raise NotImplementedError(e.operator)
    if isinstance(e, Exists):
        sel = e.element
        while isinstance(sel, (Grouping, ScalarSelect)): sel = sel.element
        rel = eval_select(db, sel, env, proj=False); return (z3.Or([g for g, _ in rel]) if rel else F, F)
    if isinstance(e, BinaryExpression):
        op = e.operator
        if op in (ops.in_op, ops.not_in_op):
            l = eval_expr(db, e.left, env)
            sel = e.right
            while isinstance(sel, (Grouping, ScalarSelect)): sel = sel.element
            rel = eval_select(db, sel, env)
            hits = [z3.And(g, z3.Not(list(r.values())[0][1]), list(r.values())[0][0] == l[0]) for g, r in rel]
            anynull = z3.Or([z3.And(g, list(r.values())[0][1]) for g, r in rel]) if rel else F
            t = z3.And(z3.Not(l[1]), z3.Or(hits)) if hits else F
            isnull = z3.And(z3.Not(t), z3.Or(z3.And(l[1], z3.Or([g for g, _ in rel]) if rel else F), anynull))
            return (t, isnull) if op is ops.in_op else (z3.And(z3.Not(t), z3.Not(isnull)), isnull)
        if op in (ops.is_, ops.is_not):
            l = eval_expr(db, e.left, env); assert isinstance(e.right, Null)
            return (l[1], F) if op is ops.is_ else (z3.Not(l[1]), F)
        l = eval_expr(db, e.left, env); r = eval_expr(db, e.right, env)
        fn = {ops.eq: lambda a, b: a == b, ops.ne: lambda a, b: a != b, ops.lt: lambda a, b: a < b, ops.le: lambda a, b: a <= b,
              ops.gt: lambda a, b: a > b, ops.ge: lambda a, b: a >= b}[op]
        return (fn(l[0], r[0]), z3.Or(l[1], r[1]))
    if isinstance(e, FunctionFilter):
        raise NotImplementedError("aggregate outside having")
    raise NotImplementedError(type(e))

def eval_select(db, sel, outer, proj=True):
    """returns list of (guard, {colname: (val,isnull)})"""
    froms = list(sel.get_final_froms())
    scope = outer.get("__scope__", [])
    def leaves(f):
        return leaves(f.left) + leaves(f.right) if isinstance(f, Join) else [f]
    keep = [f for f in froms if not (not isinstance(f, Join) and any(f is g for g in scope))]
    if keep and len(keep) < len(froms): froms = keep
    new_scope = scope + [l for f in froms for l in leaves(f)]
    outer = {**outer, "__scope__": new_scope}
    rel = [(z3.BoolVal(True), {})]
    for f in froms:
        R = eval_from(db, f, outer)
        rel = [(z3.And(g1, g2), {**e1, **e2}) for g1, e1 in rel for g2, e2 in R]
    if sel.whereclause is not None:
        rel = [(z3.And(g, truth(eval_expr(db, sel.whereclause, {**outer, **env}))), env) for g, env in rel]
    cols = list(sel.selected_columns)
    def project(env):
        if not proj: return {}
        return {c.name: eval_expr(db, c, {**outer, **env}) for c in cols}
    if sel._group_by_clauses:
        gb = list(sel._group_by_clauses)
        out = []
        for g, env in rel:
            key = [eval_expr(db, c, {**outer, **env}) for c in gb]
            # group of this row: rows with equal key
            members = []
            for g2, env2 in rel:
                key2 = [eval_expr(db, c, {**outer, **env2}) for c in gb]
                same = z3.And([z3.And(a[0] == b[0], a[1] == b[1]) for a, b in zip(key, key2)])
                members.append((z3.And(g2, same), env2))
            hv = z3.BoolVal(True)
            if sel._having_criteria:
                hv = z3.And([truth(eval_having(db, h, members, {**outer, **env})) for h in sel._having_criteria])
            out.append((z3.And(g, hv), project(env)))   # duplicates across members are fine for IN/set semantics
        return out
    return [(g, project(env)) for g, env in rel]

def eval_having(db, h, members, env):
    if isinstance(h, BinaryExpression) and isinstance(h.left, FunctionFilter):
        ff = h.left
        assert ff.func.name == "count"
        crit = z3.And([z3.BoolVal(True)] + [c for c in []])
        cnt = z3.Sum([z3.If(z3.And(g, truth(eval_expr(db, ff.criterion, {**env, **e}))), 1, 0) for g, e in members])
        r = eval_expr(db, h.right, env)
        fn = {ops.gt: lambda a, b: a > b, ops.ge: lambda a, b: a >= b, ops.eq: lambda a, b: a == b}[h.operator]
        return (fn(cnt, r[0]), F)
    raise NotImplementedError(h)

def apply_delete(db, stmt, tag):
    t = db.t[stmt.table.name]
    new = SymTable(t.name, t.cols, t.n, tag)
    cons = []
    for i, (p, row) in enumerate(t.rows()):
        env = {(t.name, c): v for c, v in row.items()}
        w = truth(eval_expr(db, stmt.whereclause, env))
        cons.append(new.present[i] == z3.And(p, z3.Not(w)))
        for c in t.cols:
            cons.append(new.val[i][c] == t.val[i][c])
            if (t.name, c) in NULLABLE: cons.append(new.null[i][c] == t.null[i][c])
    return new, cons


# --- use SQLAlchemy's own compiler to resolve auto-correlation: record displayed FROMs per Select
from sqlalchemy.dialects.sqlite.base import SQLiteCompiler
from sqlalchemy.dialects import sqlite as _sqlite
FROMS = {}
class _Rec(SQLiteCompiler):
    def _compose_select_body(self, text, select, compile_state, inner_columns, froms, byfrom, toplevel, kwargs):
        FROMS[id(select)] = list(froms)
        # compile_state.statement may be a copy: map both
        FROMS[id(compile_state.statement)] = list(froms)
        return super()._compose_select_body(text, select, compile_state, inner_columns, froms, byfrom, toplevel, kwargs)
def resolve_froms(stmt):
    d = _sqlite.dialect(); d.statement_compiler = _Rec
    return str(stmt.compile(dialect=d))
