"""Prototype: case-split integer model of IEEE-754 binary64 RNE arithmetic with a constant operand.
A symbolic positive double is a list of cases (guard, m, q, lo, hi): value = m * 2**q, 2^52<=m<=2^53 (or exact small ints),
lo/hi are concrete Fraction bounds used only to enumerate candidate binades."""
import z3
from fractions import Fraction as Fr
P = 53

def rhe_constraints(m, A, B):
    """m == round_half_even(A/B), A z3 Int expr >= 0, B python int > 0"""
    return z3.And(2*m*B >= 2*A - B, 2*m*B <= 2*A + B,
                  z3.Implies(2*m*B == 2*A + B, m % 2 == 0),
                  z3.Implies(2*m*B == 2*A - B, m % 2 == 0))

class Ctx:
    def __init__(self): self.n = 0; self.cons = []
    def fresh(self, p="v"):
        self.n += 1; return z3.Int(f"{p}{self.n}")

def binades(lo, hi):
    """binade exponents e with [2^e,2^(e+1)) intersecting [lo,hi], lo>0"""
    import math
    e0 = math.floor(math.log2(lo)) - 1; e1 = math.floor(math.log2(hi)) + 1
    return [e for e in range(e0, e1 + 1) if Fr(2)**(e+1) > lo and Fr(2)**e <= hi]

def round_rational(ctx, guard, A, Bc, lo, hi, p=P):
    """cases for RNE(A/Bc) with value in [lo,hi] (lo>0). A: z3 Int; Bc: Fraction>0 (so value = A/Bc)."""
    out = []
    for e in binades(lo, hi):
        q = e - (p - 1)
        # m = rhe(A / (Bc * 2^q))
        den = Bc * Fr(2)**q
        num_scale, B = den.denominator, den.numerator   # A/den = A*den.denominator/den.numerator
        m = ctx.fresh("m")
        g = z3.And(guard, rhe_constraints(m, A * num_scale, B), m >= 2**(p-1), m <= 2**p,
                   # value lies in closed binade [2^e, 2^(e+1)] before rounding (keeps cases disjoint enough; overlap at boundaries is harmless: same value)
                   A * num_scale >= B * 2**(p-1) - B, A * num_scale <= B * 2**p)
        clo = max(lo, Fr(2)**e); chi = min(hi, Fr(2)**(e+1))
        out.append((g, m, q, clo, chi))
    return out
