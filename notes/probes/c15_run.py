import sys
from tel2puml.otel_to_pv.data_holders.sql_data_holder.sql_dataholder import SQLDataHolder
from tel2puml.otel_to_pv.config import SQLDataHolderConfig
from tel2puml.otel_to_pv.otel_to_pv_types import OTelEvent
ingest = sys.argv[1] == "1"
h = SQLDataHolder(SQLDataHolderConfig(db_uri="sqlite:////tmp/probe/c15/t.db", batch_size=2, time_buffer=0))
if ingest:
    with h:
        for t in range(3):
            h.save_data(OTelEvent(job_name="n", job_id=f"t{t}", event_type="R", event_id=f"r{t}", start_timestamp=10, end_timestamp=20, application_name="a", parent_event_id=None))
            h.save_data(OTelEvent(job_name="n", job_id=f"t{t}", event_type="C" if t else "D", event_id=f"c{t}", start_timestamp=11, end_timestamp=12, application_name="a", parent_event_id=f"r{t}"))
h.remove_inconsistent_jobs(); h.remove_jobs_outside_of_time_window(); h.update_job_names_by_root_span()
print(h.find_unique_graphs())
print([ (n, [[e.event_id for e in j] for j in js]) for n, js in h.stream_data()])
