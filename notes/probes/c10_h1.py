from typing import List, Tuple
from tel2puml.otel_to_pv.otel_to_pv_types import OTelEvent
from tel2puml.otel_to_pv.data_holders.sql_data_holder.sql_dataholder import SQLDataHolder
from fake import FakeSession
import logging
logging.disable(logging.CRITICAL)

IDS = ["a", "b", "c"]

def mk_holder(batch):
    h = SQLDataHolder.__new__(SQLDataHolder)
    h._min_timestamp = 9223372036854775807; h._max_timestamp = 0
    h.node_models_to_save = []; h.node_relationships_to_save = []
    h.batch_size = batch; h.time_buffer = 0
    h.session = FakeSession()
    return h

def check(i0: int, i1: int, i2: int, i3: int, p0: int, p1: int, p2: int, p3: int, batch: int) -> bool:
    """
    pre: 0 <= i0 < 3 and 0 <= i1 < 3 and 0 <= i2 < 3 and 0 <= i3 < 3
    pre: 0 <= p0 <= 3 and 0 <= p1 <= 3 and 0 <= p2 <= 3 and 0 <= p3 <= 3
    pre: 1 <= batch <= 5
    post: _
    """
    ids = [IDS[i] for i in (i0, i1, i2, i3)]
    pars = [None if p == 3 else IDS[p] for p in (p0, p1, p2, p3)]
    h = mk_holder(batch)
    with h:
        for n, (eid, par) in enumerate(zip(ids, pars)):
            h.save_data(OTelEvent.model_construct(job_name="j", job_id="t", event_type="T%d" % n, event_id=eid,
                        start_timestamp=n, end_timestamp=n + 1, application_name="a", parent_event_id=par, child_event_ids=None))
    # expected: first occurrence of each id
    exp = {}
    for n, (eid, par) in enumerate(zip(ids, pars)):
        if eid not in exp:
            exp[eid] = ("T%d" % n, par)
    got = {r["event_id"]: (r["event_type"], r["parent_event_id"]) for r in h.session.nodes}
    if got != exp or len(h.session.nodes) != len(exp):
        return False
    exp_assoc = sorted((par, eid) for eid, (_, par) in exp.items() if par is not None)
    return sorted(h.session.assoc) == exp_assoc

# warm-up: force all lazy SQLAlchemy initialisation outside symbolic tracing
check(0, 0, 1, 2, 3, 0, 0, 1, 2)
check(0, 1, 2, 1, 0, 2, 3, 2, 5)
