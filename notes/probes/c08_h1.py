from tel2puml.otel_to_pv.otel_to_pv_types import OTelEvent
from tel2puml.otel_to_pv.sequence_otel import sequence_groups_of_otel_events_asynchronously

def mk(i, s, e):
    return OTelEvent.model_construct(job_name="j", job_id="1", event_type="t%d" % i, event_id="e%d" % i,
                     start_timestamp=s, end_timestamp=e, application_name="a", parent_event_id="r", child_event_ids=[])

def ref_groups(ivs):
    # connected components of overlap graph, intervals closed
    n = len(ivs)
    comp = list(range(n))
    changed = True
    while changed:
        changed = False
        for i in range(n):
            for j in range(n):
                if comp[i] != comp[j] and ivs[i][0] <= ivs[j][1] and ivs[j][0] <= ivs[i][1]:
                    m = min(comp[i], comp[j]); comp[i] = comp[j] = m; changed = True
    return comp

def check3(s0: int, e0: int, s1: int, e1: int, s2: int, e2: int) -> bool:
    """
    pre: 0 <= s0 <= e0 and 0 <= s1 <= e1 and 0 <= s2 <= e2
    pre: s0 != s1 and s1 != s2 and s0 != s2
    post: _
    """
    ivs = [(s0, e0), (s1, e1), (s2, e2)]
    evs = [mk(i, s, e) for i, (s, e) in enumerate(ivs)]
    out = sequence_groups_of_otel_events_asynchronously([[e] for e in evs])
    comp = ref_groups(ivs)
    # same group in out <=> same component
    gid = {}
    for gi, g in enumerate(out):
        for ev in g:
            gid[int(ev.event_id[1:])] = gi
    for i in range(3):
        for j in range(3):
            if (gid[i] == gid[j]) != (comp[i] == comp[j]):
                return False
    return True
