import z3, time, sys
# forward: n = 1000*k ns, k in [0, K]; M = fromtimestamp(n/1e9) in microseconds; assert M != k  -> expect unsat
F = z3.Float64()
RNE, RTZ = z3.RNE(), z3.RTZ()
k = z3.BitVec('k', 64)
K = 4102444800 * 10**6  # 2100-01-01 in us
n = k * z3.BitVecVal(1000, 64)
fn = z3.fpToFP(RNE, n, F)  # signed bv -> fp (n < 2^63)
d = z3.fpDiv(RNE, fn, z3.FPVal(1e9, F))
ip = z3.fpRoundToIntegral(RTZ, d)
fp_ = z3.fpSub(RNE, d, ip)
sc = z3.fpMul(RNE, fp_, z3.FPVal(1e6, F))
us = z3.fpRoundToIntegral(RNE, sc)
ip_bv = z3.fpToSBV(RTZ, ip, z3.BitVecSort(64))
us_bv = z3.fpToSBV(RTZ, us, z3.BitVecSort(64))
M = ip_bv * z3.BitVecVal(10**6, 64) + us_bv
s = z3.SolverFor("QF_FPBV") if False else z3.Solver()
s.add(z3.ULE(k, z3.BitVecVal(K, 64)))
s.add(M != k)
open('q1.smt2','w').write("(set-logic QF_BVFP)\n"+s.to_smt2())
t = time.time()
s.set("timeout", 600000)
print(s.check(), time.time()-t)
if str(s.check()) == 'sat': print(s.model())
