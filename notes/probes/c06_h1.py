from typing import Optional, Set, FrozenSet, List
from tel2puml.utils import get_weighted_cover

def unions_ok(es: FrozenSet[int], cover) -> bool:
    # es must be a union of cover members
    acc = frozenset()
    for c in cover:
        if c <= es:
            acc = acc | c
    return acc == es

def check(masks: List[int], umask: int) -> bool:
    """
    pre: 1 <= umask < 16
    pre: 1 <= len(masks) <= 4
    pre: all(1 <= m < 16 and (m & umask) == m for m in masks)
    post: _
    """
    universe = frozenset(i for i in range(4) if umask >> i & 1)
    event_sets = {frozenset(i for i in range(4) if m >> i & 1) for m in masks}
    orig = set(event_sets)
    cover = get_weighted_cover(event_sets, universe)
    if cover is None:
        return True
    # partition of universe
    u = frozenset()
    tot = 0
    for c in cover:
        if c not in orig:
            return False
        u = u | c
        tot += len(c)
    if u != universe or tot != len(universe):
        return False
    return all(unions_ok(es, cover) for es in orig if es != universe)
