"""Minimal in-memory stand-in for sqlalchemy Session, enough for ingestion path."""
from sqlalchemy.exc import IntegrityError
from sqlalchemy.orm import Query
from sqlalchemy.sql import operators
from sqlalchemy.sql.elements import BinaryExpression, BindParameter, BooleanClauseList
from sqlalchemy.sql.dml import Insert
from tel2puml.otel_to_pv.data_holders.sql_data_holder.data_model import NodeModel, NODE_ASSOCIATION, JobHash

class FakeResult:
    def __init__(self, rows): self.rows = rows; self._attributes = {}
    def all(self): return list(self.rows)

class FakeSession:
    def __init__(self):
        self.nodes = []      # committed list of dict
        self.assoc = []      # committed list of (p, c)
        self.pending = []
    def __enter__(self): return self
    def __exit__(self, *a): self.pending = []
    def close(self): self.pending = []
    def add_all(self, objs): self.pending.extend(objs)
    def rollback(self): self.pending = []
    def commit(self):
        pend, self.pending = self.pending, []
        seen = [n["event_id"] for n in self.nodes]
        new = []
        for o in pend:
            if isinstance(o, NodeModel):
                if o.event_id in seen:
                    raise IntegrityError("INSERT nodes", {}, Exception("UNIQUE constraint failed: nodes.event_id"))
                seen.append(o.event_id)
                new.append({c: getattr(o, c) for c in ("job_name","job_id","event_type","event_id","start_timestamp","end_timestamp","application_name","parent_event_id")})
        self.nodes.extend(new)
    def query(self, *ents): return Query(list(ents), session=self)
    def execute(self, stmt, params=None, **kw):
        if isinstance(stmt, Insert) and stmt.table is NODE_ASSOCIATION:
            new = [(p["parent_id"], p["child_id"]) for p in params]
            allp = list(self.assoc)
            for pc in new:
                if pc in allp:
                    raise IntegrityError("INSERT assoc", {}, Exception("UNIQUE"))
                allp.append(pc)
            self.assoc = allp
            return FakeResult([])
        # select event_id where event_id in (...)
        w = stmt.whereclause
        assert isinstance(w, BinaryExpression) and w.operator is operators.in_op
        vals = list(w.right.value)
        return FakeResult([(n["event_id"],) for n in self.nodes if n["event_id"] in vals])
