import z3, time, sys
from fractions import Fraction as Fr
from ieee import *
def query(e_n, K, neq=True):
    ctx = Ctx(); k = z3.Int('k'); n = 1000 * k
    lo_n = max(Fr(2)**e_n, Fr(1000)); hi_n = min(Fr(2)**(e_n+1) - 1, Fr(1000*K))
    if lo_n > hi_n: return None
    base = z3.And(k >= 1, k <= K, n >= 2**e_n, n < 2**(e_n+1))
    # float(n)
    if e_n < 53:
        fcases = [(base, n, 0, lo_n, hi_n)]          # exact: value = n * 2^0
    else:
        fcases = round_rational(ctx, base, n, Fr(1), lo_n, hi_n)
    bad = []
    for (g1, m1, q1, lo1, hi1) in fcases:
        # d = RNE(fn / 1e9)
        for (g2, m2, q2, lo2, hi2) in round_rational(ctx, g1, m1, Fr(10**9) / Fr(2)**q1, lo1/10**9, hi1/10**9):
            # modf: d = m2*2^q2
            if q2 >= 0:
                ip = m2 * 2**q2; r = z3.IntVal(0); fden = 1
            else:
                fden = 2**(-q2); ip = m2 / fden; r = m2 % fden     # z3 Int div/mod (m2>=0)
            # sc = RNE(r/fden * 1e6); exact when r*1e6 < 2^53 -- else need rounding cases
            t = r * 10**6
            # us = rhe(sc); handle exact case and rounded case
            us = ctx.fresh("us")
            exact = z3.And(t < 2**53, rhe_constraints(us, t, fden))
            cases_sc = [exact]
            if fden * 1 > 2**33:   # r can exceed 2^33 => t may exceed 2^53
                for (g3, m3, q3, lo3, hi3) in round_rational(ctx, t >= 2**53, t, Fr(fden), Fr(2**53, fden), Fr(10**6)):
                    # sc = m3*2^q3 ; us = rhe(sc)
                    den3 = Fr(2)**(-q3)
                    cases_sc.append(z3.And(g3, rhe_constraints(us, m3 * den3.denominator, den3.numerator)))
            M = z3.If(us >= 10**6, (ip + 1) * 10**6 + us - 10**6, ip * 10**6 + us)
            bad.append(z3.And(g2, z3.Or(cases_sc), (M != k) if neq else (M == k)))
    s = z3.Solver(); s.add(z3.Or(bad)) if bad else s.add(False)
    t0 = time.time(); r = s.check()
    return str(r), round(time.time()-t0, 2), (s.model() if str(r) == 'sat' else None)
if __name__ == "__main__":
  pass
K = 4102444800 * 10**6
tot = 0
for e in (range(9, 62) if __name__ == '__main__' else []):
    res = query(e, K)
    if res: print(e, res[0], res[1], res[2] if res[2] is None else res[2][z3.Int('k')]); tot += res[1]
print("total", tot)
