"""Probe: full links for a root with 3 children, child0 has 1 grandchild. Reference = fixed semantics (max end chain)."""
from tel2puml.otel_to_pv.otel_to_pv_types import OTelEvent
from tel2puml.otel_to_pv.sequence_otel import sequence_otel_event_ancestors

def mk(eid, et, s, e, parent, children):
    return OTelEvent.model_construct(job_name="j", job_id="1", event_type=et, event_id=eid,
                     start_timestamp=s, end_timestamp=e, application_name="a", parent_event_id=parent, child_event_ids=children)

def ref_links(ev, m, prev, async_flag):
    kids = [m[c] for c in ev.child_event_ids]
    kids = sorted(kids, key=lambda x: x.start_timestamp)
    groups = []
    if async_flag:
        cur = []
        cur_max = None
        for k in kids:
            if cur and cur_max < k.start_timestamp:
                groups.append(cur); cur = []
                cur_max = None
            cur.append(k)
            cur_max = k.end_timestamp if cur_max is None else max(cur_max, k.end_timestamp)
        if cur: groups.append(cur)
    else:
        groups = [[k] for k in kids]
    out = {}
    for g in groups:
        for k in g:
            out.update(ref_links(k, m, prev, async_flag))
        prev = [k.event_id for k in g]
    out[ev.event_id] = prev
    return out

def check(s0: int, e0: int, s1: int, e1: int, s2: int, e2: int, s3: int, e3: int, a: bool) -> bool:
    """
    pre: 0 <= s0 <= e0 and 0 <= s1 <= e1 and 0 <= s2 <= e2 and 0 <= s3 <= e3
    pre: s0 != s1 and s1 != s2 and s0 != s2
    post: _
    """
    m = {
        "r": mk("r", "R", 0, 100, None, ["c0", "c1", "c2"]),
        "c0": mk("c0", "A", s0, e0, "r", ["g"]),
        "c1": mk("c1", "B", s1, e1, "r", []),
        "c2": mk("c2", "C", s2, e2, "r", []),
        "g": mk("g", "G", s3, e3, "c0", []),
    }
    got = sequence_otel_event_ancestors(m["r"], m, async_flag=a)
    exp = ref_links(m["r"], m, [], a)
    return got == exp
