"""CrossHair harness for C12: real stream_data / stream_job_name_batches / node_to_otel_event consumed by
the real job_ids_to_eventid_to_otelevent_map, on the model store.

Symbolic: which trace every stored row belongs to (so: every interleaving of the traces in insertion
order) and the workflow name of every trace.  Concrete per condition: number of rows/traces, filter variant.
"""
from __future__ import annotations

import logging
import os
import tempfile
from typing import Any, Optional

from vlib.core import cfg as _cfg, path_tick
from vlib import modelstore as M, sqlvalidate as V

from tel2puml.otel_to_pv.data_holders.sql_data_holder import sql_dataholder as sdh
from tel2puml.otel_to_pv.sequence_otel import job_ids_to_eventid_to_otelevent_map

logging.disable(logging.CRITICAL)
CFG = _cfg()
NAMES = ["wfA", "wfB"]
TRACES = ["t0", "t1", "t2"]


def rows_for(tr: list[int], nm: list[int]) -> tuple[list[dict[str, Any]], list[dict[str, str]]]:
    """row j belongs to trace tr[j]; its parent is the previous row of the same trace (a chain per trace)"""
    rows, assoc = [], []
    last: dict[int, str] = {}
    for j, t in enumerate(tr):
        eid = f"e{j}"
        parent = last.get(t)
        if CFG.get("cross") and j == 1:
            parent = "e0"   # when row 1 belongs to another trace than row 0 its parent lives in a different trace
        rows.append({"id": j + 1, "job_name": NAMES[nm[t]], "job_id": TRACES[t], "event_type": f"T{j}", "event_id": eid,
                     "start_timestamp": 10 + j, "end_timestamp": 20 + j, "application_name": "app",
                     "parent_event_id": parent})
        if parent is not None:
            assoc.append({"parent_id": parent, "child_id": eid})
        last[t] = eid
    return rows, assoc


def filter_of(c: dict[str, Any]) -> Optional[dict[str, set[str]]]:
    f = c.get("filter")
    if f is None:
        return None
    return {k: set(v) for k, v in f.items()}


def expected(rows: list[dict[str, Any]], assoc: list[dict[str, str]], flt: Optional[dict[str, set[str]]],
             names: Optional[set[str]]) -> list[Any]:
    sel = [r for r in rows
           if (flt is None or not flt or any(r["job_name"] == n and r["job_id"] in ids for n, ids in flt.items()))
           and (not names or r["job_name"] in names)]
    out = []
    for name in sorted({r["job_name"] for r in sel}):
        traces = []
        for t in sorted({r["job_id"] for r in sel if r["job_name"] == name}):
            ids = {r["event_id"] for r in sel if r["job_name"] == name and r["job_id"] == t}
            if any(r["parent_event_id"] is not None and r["parent_event_id"] not in ids
                   for r in sel if r["job_name"] == name and r["job_id"] == t):
                continue    # a trace whose parent span is not part of it cannot be sequenced; it is skipped on its own
            traces.append(sorted((r["event_id"], r["job_id"], r["event_type"], r["parent_event_id"],
                                  tuple(sorted(a["child_id"] for a in assoc if a["parent_id"] == r["event_id"])))
                                 for r in sel if r["job_name"] == name and r["job_id"] == t))
        out.append((name, traces))
    return out


def observe(h: sdh.SQLDataHolder, flt: Any, names: Any) -> Any:
    saved = sdh.tqdm
    sdh.tqdm = V.quiet_tqdm  # type: ignore[assignment]
    try:
        out = []
        for name, gen in h.stream_data(flt, names):
            traces = []
            for m in job_ids_to_eventid_to_otelevent_map(gen):
                traces.append(sorted((e.event_id, e.job_id, e.event_type, e.parent_event_id,
                                      tuple(sorted(e.child_event_ids or []))) for e in m.values()))
                if any(k != e.event_id for k, e in m.items()):
                    return "event map keyed by a different id"
            out.append((name, traces))
        return out
    except Exception as e:  # noqa
        if os.environ.get("VERIF_DEBUG"):
            import traceback
            traceback.print_exc()
        return f"streaming raised {type(e).__name__}: {e}"
    finally:
        sdh.tqdm = saved


def run_model(c: dict[str, Any], tr: list[Any], nm: list[Any]) -> Optional[str]:
    rows, assoc = rows_for(tr, nm)
    store = M.Store()
    store.tables["nodes"] = [dict(r) for r in rows]
    store.tables["NODE_ASSOCIATION"] = [dict(a) for a in assoc]
    h = V.model_holder(store, c.get("batch", 2), 0)
    flt = filter_of(c)
    names = set(c["names"]) if c.get("names") else None
    got = observe(h, flt, names)
    want = expected(rows, assoc, flt, names)
    if canon_out(got) != canon_out(want):
        return f"streamed {got} but the store holds {want}"
    return None


def canon_out(out: Any) -> Any:
    """the order in which names and traces are yielded is not part of the property; multiplicity is"""
    if isinstance(out, str):
        return out
    return sorted((name, sorted(traces)) for name, traces in out)


def run_real(c: dict[str, Any], tr: list[int], nm: list[int]) -> Optional[str]:
    import sqlalchemy as sa
    from tel2puml.otel_to_pv.data_holders.sql_data_holder.data_model import NodeModel, NODE_ASSOCIATION
    rows, assoc = rows_for(tr, nm)
    h = V.real_holder(c.get("batch", 2), 0)
    with h.session as s:
        for r in rows:
            s.add(NodeModel(**r))
        s.commit()
        if assoc:
            s.execute(sa.insert(NODE_ASSOCIATION), assoc)
            s.commit()
    flt = filter_of(c)
    names = set(c["names"]) if c.get("names") else None
    got = observe(h, flt, names)
    want = expected(rows, assoc, flt, names)
    h.engine.dispose()
    if canon_out(got) != canon_out(want):
        return f"streamed {got} but the store holds {want}"
    return None


def rgs_ok(xs: list[int], k: int) -> bool:
    mx = -1
    for x in xs:
        if x < 0 or x > mx + 1 or x >= k:
            return False
        mx = max(mx, x)
    return True


def pre(r1: int, r2: int, r3: int, r4: int, n0: int, n1: int, n2: int) -> bool:
    n, T = CFG["n"], CFG["T"]
    tr = [0, r1, r2, r3, r4]
    if any(x != 0 for x in tr[n:]) or any(x != 0 for x in [n0, n1, n2][T:]):
        return False
    fix = CFG.get("fix") or {}
    if "n0" in fix and n0 != fix["n0"]:
        return False
    if "r1" in fix and r1 != fix["r1"]:
        return False
    return rgs_ok(tr[:n], T) and all(0 <= x <= 1 for x in [n0, n1, n2][:T])


def check(r1: int, r2: int, r3: int, r4: int, n0: int, n1: int, n2: int) -> bool:
    """
    pre: pre(r1, r2, r3, r4, n0, n1, n2)
    post: _
    """
    path_tick()
    return run_model(CFG, [0, r1, r2, r3, r4][:CFG["n"]], [n0, n1, n2]) is None


def twin(r1: int, r2: int, r3: int, r4: int, n0: int, n1: int, n2: int) -> bool:
    """
    pre: pre(r1, r2, r3, r4, n0, n1, n2)
    post: not _
    """
    return run_model(CFG, [0, r1, r2, r3, r4][:CFG["n"]], [n0, n1, n2]) is None


def replay(args: list[Any], c: dict[str, Any]) -> dict[str, Any]:
    a = [int(x) for x in args]
    tr, nm = ([0] + a[:4])[:c["n"]], a[4:7]
    msg = run_real(c, tr, nm)
    return {"violates": msg is not None, "sig": "stream",
            "what": (msg or "real SQLite streams exactly the stored traces") + f" [row->trace {tr}, trace->name {nm}, filter {c.get('filter')}]",
            "model_says": run_model(c, tr, nm)}


try:  # warm-up
    if CFG:
        run_model(CFG, [0, 1, 0, 1, 0][:CFG["n"]], [0, 1, 0])
    else:
        run_model({"n": 4, "T": 2}, [0, 1, 0, 1], [0, 1, 0])
except Exception:  # noqa  (a failing warm-up is reported by the conditions themselves)
    pass
