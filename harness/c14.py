"""CrossHair harness for C14 (in part): the saved PV files hold the same events, links and field values as the
in-memory stream, also under a custom field-name mapping used for both saving and loading.

Real code: handle_save_events, save_pv_event_stream_to_file (otel_to_pv.py), pv_job_file_to_event_sequence,
pv_files_to_pv_streams, pv_job_files_to_event_sequence_streams (pv_to_puml.py), transform_dict_into_pv_event (pv_event_simulator.py).
File I/O is replaced by an in-memory file system (open / os.makedirs of the two modules).
Symbolic: which name three of the fields are mapped to (incl. names that are other fields' default names:
swaps and chains), whether values are empty / equal to key names, number of predecessor links."""
from __future__ import annotations

import io
import json
from typing import Any, Optional

from vlib.core import cfg as _cfg, path_tick

import tel2puml.otel_to_pv.otel_to_pv as o2p
import tel2puml.pv_to_puml.pv_to_puml as pvp
from tel2puml.tel2puml_types import PVEvent, PVEventMappingConfig

CFG = _cfg()
FILES: dict[str, str] = {}
NAMEPOOL = ["jobId", "eventType", "jobName", "fresh1"]


class _W(io.StringIO):
    def __init__(self, path: str):
        super().__init__()
        self.path = path

    def close(self) -> None:
        FILES[self.path] = self.getvalue()
        super().close()


def fake_open(path: str, mode: str = "r", **_k: Any) -> Any:
    if "w" in mode:
        return _W(path)
    if path not in FILES:
        raise FileNotFoundError(path)
    return io.StringIO(FILES[path])


class _OS:
    @staticmethod
    def makedirs(*_a: Any, **_k: Any) -> None:
        return None


def mapping(m0: int, m1: int, m2: int, rest_fresh: bool) -> Optional[PVEventMappingConfig]:
    kw = {"jobId": NAMEPOOL[m0], "eventType": NAMEPOOL[m1], "jobName": NAMEPOOL[m2]}
    if rest_fresh:
        kw.update(eventId="eid", timestamp="ts", previousEventIds="prev", applicationName="appl")
    return PVEventMappingConfig(**kw)


def traces(app_empty: int, type_is_key: int, nprev: int) -> list[list[PVEvent]]:
    app = "" if app_empty else "app"
    typ = ["T1", "jobName", " T1 ", ""][type_is_key]   # ordinary / equal to a key name / whitespace padded / empty
    t1 = [PVEvent(jobId="j1", eventId="e1", timestamp="2024-01-01T00:00:00.000000Z", previousEventIds=[],
                  applicationName=app, jobName="wf", eventType=typ),
          PVEvent(jobId="j1", eventId="e2", timestamp="2024-01-01T00:00:01.000000Z", previousEventIds=["e1", "e0"][:nprev],
                  applicationName="app", jobName="wf", eventType="T2")]
    t2 = [PVEvent(jobId="j2", eventId="f1", timestamp="2024-01-01T00:00:02.000000Z", previousEventIds=[],
                  applicationName="app", jobName="wf", eventType="T3")]
    out = [t1, t2]
    for i in range(CFG.get("many", 0)):     # a workflow with many traces: one file per trace, numbered in stream order
        out.append([PVEvent(jobId=f"m{i}", eventId=f"m{i}e", timestamp="2024-01-01T00:00:03.000000Z", previousEventIds=[],
                            applicationName="app", jobName="wf", eventType=f"M{i}")])
    return out


def roundtrip(mc: Optional[PVEventMappingConfig], trs: list[list[PVEvent]]) -> Optional[str]:
    FILES.clear()
    saved = (o2p.open if hasattr(o2p, "open") else None, o2p.os, getattr(pvp, "open", None), o2p.tqdm)
    o2p.open = fake_open  # type: ignore[attr-defined]
    o2p.os = _OS  # type: ignore[assignment]
    pvp.open = fake_open  # type: ignore[attr-defined]

    class _T:
        @staticmethod
        def write(*_a: Any, **_k: Any) -> None:
            return None
    o2p.tqdm = _T  # type: ignore[assignment]
    try:
        try:
            o2p.handle_save_events("wf", ((e for e in t) for t in trs), "/out", mc)  # type: ignore[arg-type]
        except Exception as e:  # noqa
            return f"saving raised {type(e).__name__}: {e}"
        want_paths = [f"/out/wf/pv_event_sequence_{k}.json" for k in range(1, len(trs) + 1)]
        if sorted(FILES) != sorted(want_paths):
            return f"files written: {sorted(FILES)}"
        paths = want_paths
        try:
            kwargs = {} if mc is None else {"mapping_config": mc}
            streams = list(pvp.pv_files_to_pv_streams(file_list=paths, job_name="wf", **kwargs))   # what pv2puml -fp ... does
            if len(streams) != 1 or streams[0][0] != "wf":
                return f"pv_files_to_pv_streams yielded {[n for n, _ in streams]}"
            loaded = list(streams[0][1])
        except Exception as e:  # noqa
            return f"loading the saved files raised {type(e).__name__}: {e}"
        want = [[dict(e) for e in t] for t in trs]
        got = [[dict(e) for e in t] for t in loaded]
        if got != want:
            return f"loaded {got} but the stream was {want} (files {FILES})"
        return None
    finally:
        if saved[0] is None:
            del o2p.open  # type: ignore[attr-defined]
        else:
            o2p.open = saved[0]  # type: ignore[attr-defined]
        o2p.os = saved[1]  # type: ignore[assignment]
        if saved[2] is None:
            del pvp.open  # type: ignore[attr-defined]
        else:
            pvp.open = saved[2]  # type: ignore[attr-defined]
        o2p.tqdm = saved[3]  # type: ignore[assignment]


def check(m0: int, m1: int, m2: int, app_empty: int, type_is_key: int, nprev: int) -> bool:
    """
    pre: 0 <= m0 < 4 and 0 <= m1 < 4 and 0 <= m2 < 4 and m0 != m1 and m1 != m2 and m0 != m2
    pre: app_empty in (0, 1) and 0 <= type_is_key <= 3 and 0 <= nprev <= 2 and m0 == CFG.get("m0", m0)
    post: _
    """
    path_tick()
    if CFG.get("default"):
        mc = None
    else:
        mc = mapping(m0, m1, m2, bool(CFG.get("rest_fresh")))
    return roundtrip(mc, traces(app_empty, type_is_key, nprev)) is None


def twin(m0: int, m1: int, m2: int, app_empty: int, type_is_key: int, nprev: int) -> bool:
    """
    pre: 0 <= m0 < 4 and 0 <= m1 < 4 and 0 <= m2 < 4 and m0 != m1 and m1 != m2 and m0 != m2
    pre: app_empty in (0, 1) and 0 <= type_is_key <= 3 and 0 <= nprev <= 2
    post: not _
    """
    return check(m0, m1, m2, app_empty, type_is_key, nprev)


def replay(args: list[Any], c: dict[str, Any]) -> dict[str, Any]:
    a = [int(x) for x in args]
    mc = None if c.get("default") else mapping(a[0], a[1], a[2], bool(c.get("rest_fresh")))
    msg = roundtrip(mc, traces(a[3], a[4], a[5]))
    return {"violates": msg is not None, "sig": "save-load", "what": (msg or "saved files equal the stream") +
            f" [mapping {None if mc is None else mc.model_dump()}]"}


try:
    roundtrip(mapping(1, 2, 3, True), traces(0, 1, 2))
    roundtrip(None, traces(1, 0, 1))
except Exception:  # noqa
    pass
