"""CrossHair harness for C09-Q3: the real find_unique_graphs (root paging, per-batch child maps, hashing,
hash insertion, representative selection) on the model store.

Symbolic: which trace each stored row belongs to (every interleaving), the span type of rows 1.., and whether a
third/fourth span of a trace hangs under the trace's root or under the previous span (shape).
Concrete per condition: number of rows / traces, batch size, workflow-name layout.
"""
from __future__ import annotations

import json
import logging
from typing import Any, Optional

from vlib.core import cfg as _cfg, path_tick, untraced
from vlib import modelstore as M, sqlvalidate as V

from tel2puml.otel_to_pv.data_holders.sql_data_holder import sql_dataholder as sdh

logging.disable(logging.CRITICAL)
V.install_sa_proxy()
CFG = _cfg()
TYPES = ["A", "B"]
TRACES = ["t0", "t1", "t2"]


def rows_for(c: dict[str, Any], tr: list[int], lab: list[int], star: list[int]) -> tuple[list[dict[str, Any]], list[dict[str, str]]]:
    rows, assoc = [], []
    members: dict[int, list[str]] = {}
    names = c.get("names") or ["wf", "wf", "wf"]
    for j, t in enumerate(tr):
        eid = f"e{j}"
        mem = members.setdefault(t, [])
        if not mem:
            parent = None
        elif len(mem) >= 2 and star[j]:
            parent = mem[0]
        else:
            parent = mem[-1]
        rows.append({"id": j + 1, "job_name": names[t], "job_id": TRACES[t], "event_type": TYPES[lab[j]], "event_id": eid,
                     "start_timestamp": 10 + j, "end_timestamp": 20 + j, "application_name": "app", "parent_event_id": parent})
        if parent is not None:
            assoc.append({"parent_id": parent, "child_id": eid})
        mem.append(eid)
    return rows, assoc


def canon(rows: list[dict[str, Any]], eid: str) -> str:
    r = next(x for x in rows if x["event_id"] == eid)
    kids = sorted(canon(rows, x["event_id"]) for x in rows if x["parent_event_id"] == eid)
    return json.dumps([r["event_type"], kids])


def judge(rows: list[dict[str, Any]], got: Any) -> Optional[str]:
    if isinstance(got, str):
        return got
    classes: dict[str, dict[str, set[str]]] = {}
    for r in rows:
        if r["parent_event_id"] is None:
            classes.setdefault(r["job_name"], {}).setdefault(canon(rows, r["event_id"]), set()).add(r["job_id"])
    if set(got) != set(classes):
        return f"workflow names {sorted(got)} selected, store has {sorted(classes)}"
    for name, cl in classes.items():
        sel = got[name]
        for shape, members in cl.items():
            k = len([j for j in sel if j in members])
            if k != 1:
                return f"workflow {name}: shape {shape} (traces {sorted(members)}) has {k} representatives in {sorted(sel)}"
        if len(sel) != len(cl):
            return f"workflow {name}: {len(sel)} traces selected for {len(cl)} shapes"
    return None


def run_model(c: dict[str, Any], tr: list[Any], lab: list[Any], star: list[Any]) -> Optional[str]:
    rows, assoc = rows_for(c, tr, lab, star)
    store = M.Store()
    store.tables["nodes"] = [dict(r) for r in rows]
    store.tables["NODE_ASSOCIATION"] = [dict(a) for a in assoc]
    h = V.model_holder(store, c["batch"], 0)
    V.forget_temp_table()
    try:
        got: Any = h.find_unique_graphs()
    except Exception as e:  # noqa
        got = f"find_unique_graphs raised {type(e).__name__}: {e}"
        if __import__("os").environ.get("VERIF_DEBUG"):
            __import__("traceback").print_exc()
    finally:
        V.forget_temp_table()
    msg = judge(rows, got)
    if msg is None and len(store.tables["job_hashes"]) != len({r["job_id"] for r in rows}):
        return f"{len(store.tables['job_hashes'])} hash rows for {len({r['job_id'] for r in rows})} traces"
    return msg


def run_real(c: dict[str, Any], tr: list[int], lab: list[int], star: list[int]) -> Optional[str]:
    import sqlalchemy as sa
    from tel2puml.otel_to_pv.data_holders.sql_data_holder.data_model import NodeModel, NODE_ASSOCIATION
    rows, assoc = rows_for(c, tr, lab, star)
    V.forget_temp_table()
    h = V.real_holder(c["batch"], 0)
    with h.session as s:
        for r in rows:
            s.add(NodeModel(**r))
        s.commit()
        if assoc:
            s.execute(sa.insert(NODE_ASSOCIATION), assoc)
            s.commit()
    try:
        got: Any = h.find_unique_graphs()
    except Exception as e:  # noqa
        got = f"find_unique_graphs raised {type(e).__name__}: {str(e)[:200]}"
    finally:
        V.forget_temp_table()
        h.engine.dispose()
    return judge(rows, got)


# ---- Q4: the store changes between two unique-graph runs (new files ingested, old traces cleaned away) ----
MIN = 60 * 10**9
T0 = 1_700_000_000 * 10**9


def _ev(job: str, eid: str, typ: str, minute_x10: int, parent: Optional[str], name: str = "wf") -> Any:
    from tel2puml.otel_to_pv.otel_to_pv_types import OTelEvent
    s = T0 + minute_x10 * (MIN // 10)
    return OTelEvent.model_construct(job_name=name, job_id=job, event_type=typ, event_id=eid, start_timestamp=s,
                                     end_timestamp=s + MIN // 20, application_name="app", parent_event_id=parent, child_event_ids=None)


def history_data(keep: list[Any]) -> tuple[list[Any], list[Any]]:
    """first files: anchors + three traces, each either inside (keep) or before the window of the second run;
    second files: anchors + two traces"""
    a = [_ev("a0", "a0r", "R", 0, None, "anchor"), _ev("a1", "a1r", "R", 140, None, "anchor")]
    for i, (job, ctype) in enumerate([("tA", "X"), ("tB", "X"), ("tC", "Y")]):
        at = 117 if keep[i] else 20 + i
        a += [_ev(job, job + "r", "R", at, None), _ev(job, job + "c", ctype, at + 1, job + "r")]
    b = [_ev("b0", "b0r", "R", 100, None, "anchor"), _ev("b1", "b1r", "R", 130, None, "anchor"),
         _ev("tD", "tDr", "R", 112, None), _ev("tD", "tDc", "X", 113, "tDr"),
         _ev("tE", "tEr", "R", 115, None), _ev("tE", "tEc", "Z", 116, "tEr")]
    return a, b


def history_run(holder: Any, evs: list[Any]) -> Any:
    V.forget_temp_table()
    try:
        with holder:
            for e in evs:
                holder.save_data(e.model_copy())
        holder.remove_inconsistent_jobs()
        holder.remove_jobs_outside_of_time_window()
        holder.update_job_names_by_root_span()
        return holder.find_unique_graphs()
    except Exception as e:  # noqa
        return f"run raised {type(e).__name__}: {str(e)[:200]}"
    finally:
        V.forget_temp_table()


def later(evs: list[Any]) -> list[Any]:
    """the same spans, recorded after everything in the first files"""
    out = []
    for e in evs:
        e2 = e.model_copy()
        e2.start_timestamp = e.start_timestamp + 30 * MIN
        e2.end_timestamp = e.end_timestamp + 30 * MIN
        out.append(e2)
    return out


def same_holder_run(holder: Any, a: list[Any], b: list[Any]) -> Any:
    """one holder object: save the first files, clean, save later files, then select unique graphs"""
    V.forget_temp_table()
    try:
        with holder:
            for e in a:
                holder.save_data(e.model_copy())
        holder.remove_inconsistent_jobs()
        holder.remove_jobs_outside_of_time_window()
        holder.update_job_names_by_root_span()
        with holder:
            for e in b:
                holder.save_data(e.model_copy())
        return holder.find_unique_graphs()
    except Exception as e:  # noqa
        return f"run raised {type(e).__name__}: {str(e)[:200]}"
    finally:
        V.forget_temp_table()


def history_model(c: dict[str, Any], keep: list[Any]) -> Optional[str]:
    a, b = history_data(keep)
    store = M.Store()
    if c.get("same_holder"):
        b = later(b)
        got = same_holder_run(V.model_holder(store, c["batch"], 0), a, b)
        rows = [dict(r) for r in store.tables["nodes"]]
        return untraced(lambda: judge(rows, got))
    for k, evs in enumerate((a, b)):
        store.drop_temporaries()
        got = history_run(V.model_holder(store, c["batch"], 1), evs)
        rows = [dict(r) for r in store.tables["nodes"]]
        msg = untraced(lambda: judge(rows, got))
        if msg:
            return f"run {k + 1}: {msg}"
    return None


def history_real(c: dict[str, Any], keep: list[int]) -> Optional[str]:
    import os
    import tempfile
    a, b = history_data(keep)
    tmp = tempfile.mkdtemp(prefix="c09_")
    try:
        if c.get("same_holder"):
            b = later(b)
            h = V.real_holder(c["batch"], 0, f"sqlite:///{tmp}/db.sqlite")
            got = same_holder_run(h, a, b)
            rows = [dict(zip(M.NODE_COLS[1:], n)) for n in V.dump_real(h)["nodes"]]
            h.session.close()
            h.engine.dispose()
            return judge(rows, got)
        for k, evs in enumerate((a, b)):
            h = V.real_holder(c["batch"], 1, f"sqlite:///{tmp}/db.sqlite")
            got = history_run(h, evs)
            rows = [dict(zip(M.NODE_COLS[1:], n)) for n in V.dump_real(h)["nodes"]]
            h.session.close()
            h.engine.dispose()
            msg = judge(rows, got)
            if msg:
                return f"run {k + 1}: {msg}"
    finally:
        for f in os.listdir(tmp):
            os.unlink(os.path.join(tmp, f))
        os.rmdir(tmp)
    return None


def history(k0: bool, k1: bool, k2: bool) -> bool:
    """
    pre: k0 == CFG.get("k0", k0) and k1 == CFG.get("k1", k1)
    post: _
    """
    path_tick()
    return history_model(CFG, [k0, k1, k2]) is None


def rgs_ok(xs: list[int], k: int) -> bool:
    mx = -1
    for x in xs:
        if x < 0 or x > mx + 1 or x >= k:
            return False
        mx = max(mx, x)
    return True


def pre(r1: int, r2: int, r3: int, r4: int, l1: int, l2: int, l3: int, l4: int, s2: int, s3: int, s4: int) -> bool:
    n, T = CFG["n"], CFG["T"]
    tr = [0, r1, r2, r3, r4]
    lab = [0, l1, l2, l3, l4]
    star = [0, 0, s2, s3, s4]
    if any(x != 0 for x in tr[n:] + lab[n:] + star[n:]):
        return False
    fix = CFG.get("fix") or {}
    for k, v in (("l1", l1), ("l2", l2), ("r1", r1), ("r2", r2)):
        if k in fix and v != fix[k]:
            return False
    if not all(0 <= x <= 1 for x in lab[:n] + star[:n]):
        return False
    # the star bit only matters for a span that is at least the third of its trace: pin it otherwise
    for j in range(2, n):
        earlier = 0
        for i in range(j):
            if tr[i] == tr[j]:
                earlier += 1
        if earlier < 2 and star[j] != 0:
            return False
    return rgs_ok(tr[:n], T)


def check(r1: int, r2: int, r3: int, r4: int, l1: int, l2: int, l3: int, l4: int, s2: int, s3: int, s4: int) -> bool:
    """
    pre: pre(r1, r2, r3, r4, l1, l2, l3, l4, s2, s3, s4)
    post: _
    """
    path_tick()
    n = CFG["n"]
    return run_model(CFG, [0, r1, r2, r3, r4][:n], [0, l1, l2, l3, l4][:n], [0, 0, s2, s3, s4][:n]) is None


def twin(r1: int, r2: int, r3: int, r4: int, l1: int, l2: int, l3: int, l4: int, s2: int, s3: int, s4: int) -> bool:
    """
    pre: pre(r1, r2, r3, r4, l1, l2, l3, l4, s2, s3, s4)
    post: not _
    """
    n = CFG["n"]
    return run_model(CFG, [0, r1, r2, r3, r4][:n], [0, l1, l2, l3, l4][:n], [0, 0, s2, s3, s4][:n]) is None


def replay(args: list[Any], c: dict[str, Any]) -> dict[str, Any]:
    if c.get("kind") == "history":
        keep = [bool(x) for x in args]
        msg = history_real(c, keep)
        return {"violates": msg is not None, "sig": "unique-graphs-history",
                "what": (msg or "both runs select one stored trace per shape") + f" [first-run traces inside the second window: {keep}, batch {c['batch']}]",
                "model_says": history_model(c, keep)}
    a = [int(x) for x in args]
    n = c["n"]
    tr, lab, star = ([0] + a[0:4])[:n], ([0] + a[4:8])[:n], ([0, 0] + a[8:11])[:n]
    msg = run_real(c, tr, lab, star)
    return {"violates": msg is not None, "sig": "unique-graphs",
            "what": (msg or "real SQLite selects one trace per shape") + f" [row->trace {tr}, types {lab}, star {star}, batch {c['batch']}]",
            "model_says": run_model(c, tr, lab, star)}


try:  # warm-up
    if CFG:
        run_model(CFG, [0, 1, 0, 1, 0][:CFG["n"]], [0, 1, 1, 0, 1][:CFG["n"]], [0, 0, 0, 0, 1][:CFG["n"]])
    else:
        run_model({"n": 4, "T": 2, "batch": 2}, [0, 1, 0, 1], [0, 1, 1, 0], [0, 0, 0, 0])
except Exception:  # noqa  (a failing warm-up is reported by the conditions themselves)
    pass
