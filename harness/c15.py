"""CrossHair harness for C15: histories of runs of the real otel_to_pv driver over ONE persistent store.

Every run is a "new process": fresh SQLDataHolder (fresh tracked min/max, fresh table metadata, temporary
tables gone) on the same model store.  Concrete per condition: the flag history, time_buffer, batch size.
Symbolic: which of the three main traces is broken (dangling parent) and which lies in the trailing buffer zone.
Oracle: no run raises, and every run's PV output (per workflow: the multiset of sequenced jobs, up to span
identity) equals what a first run with the same flags on a fresh store produces.
"""
from __future__ import annotations

import logging
import os
import tempfile
from typing import Any, Optional

from vlib.core import cfg as _cfg, path_tick
from vlib import modelstore as M, sqlvalidate as V
from vlib.sqlsem import untraced

import tel2puml.otel_to_pv.otel_to_pv as o2p
import tel2puml.otel_to_pv.ingest_otel_data as ing
import tel2puml.otel_to_pv.sequence_otel as seq
from tel2puml.otel_to_pv.config import IngestDataConfig, IngestTypes, SequenceModelConfig
from tel2puml.otel_to_pv.data_holders.sql_data_holder import sql_dataholder as sdh
from tel2puml.otel_to_pv.otel_to_pv_types import OTelEvent

logging.disable(logging.CRITICAL)
V.install_sa_proxy()
CFG = _cfg()
MIN = 60 * 10**9
T0 = 1_700_000_000 * 10**9


class _QuietTqdm:
    def __call__(self, it: Any = None, **_k: Any) -> Any:
        return it

    @staticmethod
    def write(*_a: Any, **_k: Any) -> None:
        return None


def events(broken: Any, late: Any) -> list[OTelEvent]:
    def ev(job: str, name: str, eid: str, typ: str, start_min_x10: int, parent: Optional[str]) -> OTelEvent:
        s = T0 + start_min_x10 * (MIN // 10)
        return OTelEvent.model_construct(job_name=name, job_id=job, event_type=typ, event_id=eid, start_timestamp=s,
                                         end_timestamp=s + MIN // 20, application_name="app", parent_event_id=parent,
                                         child_event_ids=None)
    out = [ev("z0", "wf2", "z0r", "R", 0, None)]
    mains = [("tA", "X", "wf"), ("tB", "X", "other"), ("tC", "Y", "wf")]
    for i, (job, ctype, cname) in enumerate(mains):
        at = 55 if late == i + 1 else 20 + 5 * i       # minute 5.5 lies in the trailing buffer zone when time_buffer = 1
        dur = None
        if late == 4 and i == 2:
            at, dur = 5, 50 * (MIN // 10)               # both spans start in the leading and end in the trailing buffer zone
        out.append(ev(job, "wf", job + "r", "R", at, None))
        out.append(ev(job, cname, job + "c", ctype, at + 1, ("missing" if broken == i + 1 else job + "r")))
        if dur is not None:
            out[-1].end_timestamp = out[-1].start_timestamp + dur
            out[-2].end_timestamp = out[-2].start_timestamp + dur
        if i == 0:
            out.append(out[-1].model_copy())            # the same span sent twice, inside one batch
    out.append(ev("z1", "wf2", "z1r", "R", 60, None))
    return out


def canonical(gen: Any) -> Any:
    out = []
    for name, jobs in gen:
        cj = []
        for job in jobs:
            evs = list(job)
            typ = {e["eventId"]: e["eventType"] for e in evs}
            cj.append(sorted((e["eventType"], e["jobName"], e["applicationName"], e["timestamp"][:4],
                              tuple(sorted(typ.get(p, "?") for p in e["previousEventIds"]))) for e in evs))
        out.append((name, sorted(cj)))
    return sorted(out)


def one_run(holder_factory: Any, evs: list[OTelEvent], flags: list[int]) -> Any:
    """flags = [ingest, unique] or [ingest, unique, consume-the-output]"""
    V.forget_temp_table()
    saved = (ing.fetch_data_source, ing.fetch_data_holder, o2p.fetch_data_holder, o2p.tqdm, sdh.tqdm, seq.tqdm)
    ing.fetch_data_source = lambda config: [e.model_copy() for e in evs]  # type: ignore[assignment]
    ing.fetch_data_holder = lambda config: holder_factory()  # type: ignore[assignment]
    o2p.fetch_data_holder = lambda config: holder_factory()  # type: ignore[assignment]
    o2p.tqdm = sdh.tqdm = seq.tqdm = _QuietTqdm()  # type: ignore[assignment]
    try:
        config = IngestDataConfig.model_construct(data_sources={}, data_holders={},
                                                  ingest_data=IngestTypes.model_construct(data_source="json", data_holder="sql"),
                                                  sequencer=SequenceModelConfig())
        gen = o2p.otel_to_pv(config, ingest_data=bool(flags[0]), find_unique_graphs=bool(flags[1]), save_events=False)
        if len(flags) > 2 and not flags[2]:
            return "NOT-CONSUMED"      # what `otel2pv` without --save-events does: the lazy stream is never read
        return canonical(gen)
    except Exception as e:  # noqa
        if os.environ.get("VERIF_DEBUG"):
            import traceback
            traceback.print_exc()
        return f"run raised {type(e).__name__}: {str(e)[:160]}"
    finally:
        (ing.fetch_data_source, ing.fetch_data_holder, o2p.fetch_data_holder, o2p.tqdm, sdh.tqdm, seq.tqdm) = saved
        V.forget_temp_table()


def history_model(c: dict[str, Any], evs: list[OTelEvent]) -> Optional[str]:
    store = M.Store()

    def factory() -> Any:
        store.drop_temporaries()
        return V.model_holder(store, c["batch"], c["buf"])
    ingested = False
    for k, flags in enumerate(c["history"]):
        ingested = ingested or bool(flags[0])
        got = one_run(factory, evs, flags)
        if got == "NOT-CONSUMED":
            continue
        if isinstance(got, str):
            return f"run {k + 1} {flags}: {got}"
        fresh = M.Store()
        # the oracle: a single run on a fresh store that ingests the files iff some run so far has ingested them
        # (it works on values that are concrete on this path: run it untraced)
        want = untraced(lambda: one_run(lambda: V.model_holder(fresh, c["batch"], c["buf"]), evs, [int(ingested), flags[1]]))
        if got != want:
            return f"run {k + 1} {flags} produced {got}; a first run with these flags produces {want}"
    return None


def history_real(c: dict[str, Any], evs: list[OTelEvent]) -> Optional[str]:
    tmp = tempfile.mkdtemp(prefix="c15_")
    made: list[Any] = []

    def mk(uri: str) -> Any:
        def factory() -> Any:
            h = V.real_holder(c["batch"], c["buf"], uri)
            made.append(h)
            return h
        return factory
    try:
        ingested = False
        for k, flags in enumerate(c["history"]):
            ingested = ingested or bool(flags[0])
            got = one_run(mk(f"sqlite:///{tmp}/db.sqlite"), evs, flags)
            for h in made:
                h.session.close()
                h.engine.dispose()
            made.clear()
            if got == "NOT-CONSUMED":
                continue
            if isinstance(got, str):
                return f"run {k + 1} {flags}: {got}"
            want = one_run(mk(f"sqlite:///{tmp}/fresh{k}.sqlite"), evs, [int(ingested), flags[1]])
            for h in made:
                h.session.close()
                h.engine.dispose()
            made.clear()
            if got != want:
                return f"run {k + 1} {flags} produced {got}; a first run with these flags produces {want}"
    finally:
        for f in os.listdir(tmp):
            os.unlink(os.path.join(tmp, f))
        os.rmdir(tmp)
    return None


# ---- C09 through the driver: with unique-graph filtering the streamed jobs are one per distinct shape ----
def unique_vs_all(mk_holder: Any, mk_holder2: Any, evs: list[OTelEvent]) -> Optional[str]:
    gu = one_run(mk_holder, evs, [1, 1])
    ga = one_run(mk_holder2, evs, [1, 0])
    if isinstance(gu, str) or isinstance(ga, str):
        return f"run raised: {gu if isinstance(gu, str) else ga}"
    du, da = dict(gu), dict(ga)
    if sorted(du) != sorted(da):
        return f"workflow names with filtering {sorted(du)}, without {sorted(da)}"
    for name in da:
        shapes = []
        for job in da[name]:
            if job not in shapes:
                shapes.append(job)
        if sorted(map(repr, du[name])) != sorted(map(repr, shapes)):
            return (f"workflow {name}: {len(du[name])} jobs streamed with unique-graph filtering for {len(shapes)} distinct shapes "
                    f"among the {len(da[name])} stored traces")
    return None


def unique_driver(broken: int, late: int) -> bool:
    """
    pre: pre(broken, late)
    post: _
    """
    path_tick()
    evs = events(broken, late)
    s1, s2 = M.Store(), M.Store()
    return unique_vs_all(lambda: V.model_holder(s1, CFG["batch"], CFG["buf"]),
                         lambda: V.model_holder(s2, CFG["batch"], CFG["buf"]), evs) is None


def pre(broken: int, late: int) -> bool:
    if "late" in CFG and late != CFG["late"]:
        return False
    return 0 <= broken <= 3 and 0 <= late <= 4


def check(broken: int, late: int) -> bool:
    """
    pre: pre(broken, late)
    post: _
    """
    path_tick()
    return history_model(CFG, events(broken, late)) is None


def twin(broken: int, late: int) -> bool:
    """
    pre: pre(broken, late)
    post: not _
    """
    return history_model(CFG, events(broken, late)) is None


def replay(args: list[Any], c: dict[str, Any]) -> dict[str, Any]:
    b, l = int(args[0]), int(args[1])
    if c.get("kind") == "unique-driver":
        made: list[Any] = []

        def mk() -> Any:
            h = V.real_holder(c["batch"], c["buf"])
            made.append(h)
            return h
        msg = unique_vs_all(mk, mk, events(b, l))
        for h in made:
            h.engine.dispose()
        return {"violates": msg is not None, "sig": "unique-graphs-driver",
                "what": (msg or "one streamed job per distinct shape") + f" [broken trace {b}, placement {l}, buffer {c['buf']}]"}
    msg = history_real(c, events(b, l))
    sig = "rerun-raises" if msg and "raised" in msg else "rerun-differs"
    return {"violates": msg is not None, "sig": sig,
            "what": (msg or "every run on real SQLite equals a first run") + f" [broken trace {b}, late trace {l}, history {c['history']}, buffer {c['buf']}]",
            "model_says": history_model(c, events(b, l))}


try:  # warm-up
    if CFG:
        history_model(CFG, events(1, 2))
    else:
        assert history_model({"history": [[1, 1], [0, 1]], "buf": 1, "batch": 2}, events(1, 2)) is None
except Exception:  # noqa  (a failing warm-up is reported by the conditions themselves)
    pass
