"""CrossHair harness for C08: the real sequencer against a rule-by-rule reference.

Concrete per condition (VERIF_CFG): tree skeleton, order in which children are
listed, span types, async flag, prior-information group map, rename map.
Symbolic inside a condition: start and end instant of every span (unbounded ints).
"""
from __future__ import annotations

from typing import Any, Optional

from vlib.core import cfg as _cfg, path_tick

import tel2puml.otel_to_pv.sequence_otel as seq
from tel2puml.otel_to_pv.otel_to_pv_types import OTelEvent, OTelEventTypeMap

try:  # progress bars are environment, not behaviour
    import tqdm as _tqdm
    _tqdm.tqdm.monitor_interval = 0
except Exception:  # pragma: no cover
    pass

CFG = _cfg()


def _silent_tqdm(it: Any, **_k: Any) -> Any:
    return it


def _ident(n: Any) -> Any:
    return ("PVTIME", n)


# --------------------------------------------------------------------------
def children_of(parents: list[int]) -> dict[int, list[int]]:
    ch: dict[int, list[int]] = {i: [] for i in range(len(parents))}
    for i, p in enumerate(parents):
        if p >= 0:
            ch[p].append(i)
    return ch


def pre_ok(c: dict[str, Any], ts: list[int]) -> bool:
    """0 <= start <= end for every span; siblings have pairwise distinct start times (the
    property's precondition) and no span ends exactly when a sibling starts (touching windows are
    outside the claim: the documentation does not say whether they overlap)."""
    n = len(c["parents"])
    for i in range(n):
        if not (0 <= ts[2 * i] <= ts[2 * i + 1]):
            return False
    for kids in children_of(c["parents"]).values():
        for a in kids:
            for b in kids:
                if a != b and (ts[2 * a] == ts[2 * b] or ts[2 * a + 1] == ts[2 * b]):
                    return False
        if c.get("sorted_starts") and len(kids) >= 4:
            # without loss of generality for large sibling sets: the generator enumerates every assignment of siblings to
            # groups, so any start order is the image of this one under a renaming of the siblings
            for a, b in zip(kids, kids[1:]):
                if not ts[2 * a] < ts[2 * b]:
                    return False
    return True


def build_job(c: dict[str, Any], ts: list[Any]) -> dict[str, OTelEvent]:
    parents = c["parents"]
    ch = children_of(parents)
    job: dict[str, OTelEvent] = {}
    order = list(range(len(parents)))
    if c.get("order") == "rev":
        order = order[::-1]
    for i in order:
        kids = ch[i][::-1] if c.get("order") == "rev" else ch[i]
        job[f"s{i}"] = OTelEvent.model_construct(
            job_name="job", job_id="j1", event_type=c["types"][i], event_id=f"s{i}",
            start_timestamp=ts[2 * i], end_timestamp=ts[2 * i + 1],
            application_name=f"app{i}",
            parent_event_id=(f"s{parents[i]}" if parents[i] >= 0 else None),
            child_event_ids=[f"s{k}" for k in kids],
        )
    return job


# --------------------------------------------------------------------------
# reference, written from docs/user/sequencer_HOWTO.md
# --------------------------------------------------------------------------
def ref_types(c: dict[str, Any]) -> list[str]:
    """rename iff the span's type has a rule and one of its children has a listed type"""
    types = list(c["types"])
    ch = children_of(c["parents"])
    out = list(types)
    for i, t in enumerate(types):
        rule = c.get("rename", {}).get(t)
        if rule and any(types[k] in rule["children"] for k in ch[i]):
            out[i] = rule["mapped"]
    return out


def ref_layers(c: dict[str, Any], types: list[str], ts: list[Any], parent: int) -> list[list[int]]:
    kids = children_of(c["parents"])[parent]
    gm = c.get("group_map", {}).get(types[parent], {})
    units: list[list[int]] = []
    by_gid: dict[str, list[int]] = {}
    for k in kids:
        g = gm.get(types[k])
        if g is None:
            units.append([k])
        else:
            if g not in by_gid:
                by_gid[g] = []
                units.append(by_gid[g])
            by_gid[g].append(k)

    def lo(u: list[int]) -> Any:
        m = ts[2 * u[0]]
        for x in u[1:]:
            if ts[2 * x] < m:
                m = ts[2 * x]
        return m

    def hi(u: list[int]) -> Any:
        m = ts[2 * u[0] + 1]
        for x in u[1:]:
            if ts[2 * x + 1] > m:
                m = ts[2 * x + 1]
        return m

    if c["async"]:
        # connected components of the (closed) interval-overlap graph of the unit windows
        comp = list(range(len(units)))

        def find(a: int) -> int:
            while comp[a] != a:
                a = comp[a]
            return a
        for a in range(len(units)):
            for b in range(a + 1, len(units)):
                if lo(units[a]) <= hi(units[b]) and lo(units[b]) <= hi(units[a]):
                    ra, rb = find(a), find(b)
                    if ra != rb:
                        comp[rb] = ra
        merged: dict[int, list[int]] = {}
        for a in range(len(units)):
            merged.setdefault(find(a), []).extend(units[a])
        units = list(merged.values())
    # order by earliest start (insertion sort: explicit comparisons only)
    ordered: list[list[int]] = []
    for u in units:
        pos = 0
        while pos < len(ordered) and lo(ordered[pos]) < lo(u):
            pos += 1
        ordered.insert(pos, u)
    return ordered


def ref_links(c: dict[str, Any], types: list[str], ts: list[Any], node: int, prev: list[int],
              out: dict[int, frozenset]) -> None:
    for layer in ref_layers(c, types, ts, node):
        for m in layer:
            ref_links(c, types, ts, m, prev, out)
        prev = layer
    out[node] = frozenset(prev)


def descendants(parents: list[int], i: int) -> set[int]:
    out: set[int] = set()
    for k in children_of(parents)[i]:
        out.add(k)
        out |= descendants(parents, k)
    return out


# --------------------------------------------------------------------------
def evaluate(c: dict[str, Any], ts: list[Any], *, stub_time: bool) -> Optional[str]:
    """Run the real pipeline on the job; return None if it matches the reference, else a description."""
    n = len(c["parents"])
    job = build_job(c, ts)
    rename = {k: OTelEventTypeMap(mapped_event_type=v["mapped"], child_event_types=set(v["children"]))
              for k, v in c.get("rename", {}).items()}
    saved = (seq.tqdm, seq.unix_nano_to_pv_string)
    seq.tqdm = _silent_tqdm
    if stub_time:
        seq.unix_nano_to_pv_string = _ident
    try:
        try:
            streams = list(seq.sequence_otel_jobs([job], c["async"], c.get("group_map") or None, rename or None))
            if len(streams) != 1:
                return f"{len(streams)} jobs emitted for one trace"
            pv = list(streams[0])
        except Exception as e:  # the sequencer must not fail on a well-formed trace
            return f"sequencer raised {type(e).__name__}: {e}"
    finally:
        seq.tqdm, seq.unix_nano_to_pv_string = saved
    types = ref_types(c)
    exp: dict[int, frozenset] = {}
    ref_links(c, types, ts, 0, [], exp)
    seen: dict[str, dict[str, Any]] = {}
    for ev in pv:
        if ev["eventId"] in seen:
            return f"span {ev['eventId']} emitted twice"
        seen[ev["eventId"]] = ev
    if set(seen) != {f"s{i}" for i in range(n)}:
        return f"emitted ids {sorted(seen)} != spans of the trace"
    for i in range(n):
        ev = seen[f"s{i}"]
        if ev["jobId"] != "j1" or ev["jobName"] != "job" or ev["applicationName"] != f"app{i}":
            return f"span s{i}: job id / workflow name / application not copied: {dict(ev)}"
        if ev["eventType"] != types[i]:
            return f"span s{i}: type {ev['eventType']!r}, rules give {types[i]!r}"
        want_t = _ident(ts[2 * i + 1]) if stub_time else seq.unix_nano_to_pv_string(ts[2 * i + 1])
        if ev["timestamp"] != want_t:
            return f"span s{i}: timestamp is not the PV rendering of its end time"
        got = frozenset(int(x[1:]) for x in ev["previousEventIds"])
        if len(got) != len(ev["previousEventIds"]):
            return f"span s{i}: duplicate predecessor links {ev['previousEventIds']}"
        if got != exp[i]:
            return (f"span s{i}: predecessors {sorted(got)} but the sequencing rules give {sorted(exp[i])} "
                    f"(times {[int(t) for t in ts]})")
    # structural: acyclic, and every span follows all of its descendants
    preds = {i: set(int(x[1:]) for x in seen[f"s{i}"]["previousEventIds"]) for i in range(n)}
    anc: dict[int, set[int]] = {}

    def closure(i: int, stack: tuple) -> Optional[set[int]]:
        if i in stack:
            return None
        if i in anc:
            return anc[i]
        acc: set[int] = set()
        for p in preds[i]:
            sub = closure(p, stack + (i,))
            if sub is None:
                return None
            acc |= {p} | sub
        anc[i] = acc
        return acc
    for i in range(n):
        cl = closure(i, ())
        if cl is None:
            return "predecessor links contain a cycle"
        if not descendants(c["parents"], i) <= cl:
            return f"span s{i} does not follow all of its descendants"
    return None


def _check(ts: list[Any]) -> bool:
    path_tick()
    return evaluate(CFG, ts, stub_time=True) is None


# ---- one entry point per span count (CrossHair wants literal signatures) ----
def pre2(s0: int, e0: int, s1: int, e1: int) -> bool:
    return pre_ok(CFG, [s0, e0, s1, e1])


def check2(s0: int, e0: int, s1: int, e1: int) -> bool:
    """
    pre: pre2(s0, e0, s1, e1)
    post: _
    """
    return _check([s0, e0, s1, e1])


def twin2(s0: int, e0: int, s1: int, e1: int) -> bool:
    """
    pre: pre2(s0, e0, s1, e1)
    post: not _
    """
    return _check([s0, e0, s1, e1])


def pre3(s0: int, e0: int, s1: int, e1: int, s2: int, e2: int) -> bool:
    return pre_ok(CFG, [s0, e0, s1, e1, s2, e2])


def check3(s0: int, e0: int, s1: int, e1: int, s2: int, e2: int) -> bool:
    """
    pre: pre3(s0, e0, s1, e1, s2, e2)
    post: _
    """
    return _check([s0, e0, s1, e1, s2, e2])


def twin3(s0: int, e0: int, s1: int, e1: int, s2: int, e2: int) -> bool:
    """
    pre: pre3(s0, e0, s1, e1, s2, e2)
    post: not _
    """
    return _check([s0, e0, s1, e1, s2, e2])


def pre4(s0: int, e0: int, s1: int, e1: int, s2: int, e2: int, s3: int, e3: int) -> bool:
    return pre_ok(CFG, [s0, e0, s1, e1, s2, e2, s3, e3])


def check4(s0: int, e0: int, s1: int, e1: int, s2: int, e2: int, s3: int, e3: int) -> bool:
    """
    pre: pre4(s0, e0, s1, e1, s2, e2, s3, e3)
    post: _
    """
    return _check([s0, e0, s1, e1, s2, e2, s3, e3])


def twin4(s0: int, e0: int, s1: int, e1: int, s2: int, e2: int, s3: int, e3: int) -> bool:
    """
    pre: pre4(s0, e0, s1, e1, s2, e2, s3, e3)
    post: not _
    """
    return _check([s0, e0, s1, e1, s2, e2, s3, e3])


def pre5(s0: int, e0: int, s1: int, e1: int, s2: int, e2: int, s3: int, e3: int, s4: int, e4: int) -> bool:
    return pre_ok(CFG, [s0, e0, s1, e1, s2, e2, s3, e3, s4, e4])


def check5(s0: int, e0: int, s1: int, e1: int, s2: int, e2: int, s3: int, e3: int, s4: int, e4: int) -> bool:
    """
    pre: pre5(s0, e0, s1, e1, s2, e2, s3, e3, s4, e4)
    post: _
    """
    return _check([s0, e0, s1, e1, s2, e2, s3, e3, s4, e4])


def twin5(s0: int, e0: int, s1: int, e1: int, s2: int, e2: int, s3: int, e3: int, s4: int, e4: int) -> bool:
    """
    pre: pre5(s0, e0, s1, e1, s2, e2, s3, e3, s4, e4)
    post: not _
    """
    return _check([s0, e0, s1, e1, s2, e2, s3, e3, s4, e4])


# ---- field copy with the real timestamp rendering: symbolic strings, concrete times ----
def fields(job_name: str, job_id: str, app: str, etype: str) -> bool:
    """
    pre: len(job_name) <= 3 and len(job_id) <= 3 and len(app) <= 3 and len(etype) <= 3
    post: _
    """
    path_tick()
    root = OTelEvent.model_construct(job_name=job_name, job_id=job_id, event_type=etype, event_id="r",
                                     start_timestamp=1_000, end_timestamp=1_700_000_000_123_456_000,
                                     application_name=app, parent_event_id=None, child_event_ids=["c"])
    child = OTelEvent.model_construct(job_name=job_name, job_id=job_id, event_type="leaf", event_id="c",
                                      start_timestamp=2_000, end_timestamp=3_000,
                                      application_name=app, parent_event_id="r", child_event_ids=[])
    saved = seq.tqdm
    seq.tqdm = _silent_tqdm
    try:
        pv = [list(s) for s in seq.sequence_otel_jobs([{"r": root, "c": child}])]
    finally:
        seq.tqdm = saved
    if len(pv) != 1 or len(pv[0]) != 2:
        return False
    by = {e["eventId"]: e for e in pv[0]}
    r, c = by["r"], by["c"]
    return (r["jobId"] == job_id and r["jobName"] == job_name and r["applicationName"] == app
            and r["eventType"] == etype and c["eventType"] == "leaf"
            and r["timestamp"] == "2023-11-14T22:13:20.123456Z"
            and c["timestamp"] == "1970-01-01T00:00:00.000003Z"
            and r["previousEventIds"] == ["c"] and c["previousEventIds"] == [])


def fields_twin(job_name: str, job_id: str, app: str, etype: str) -> bool:
    """
    pre: len(job_name) <= 3 and len(job_id) <= 3 and len(app) <= 3 and len(etype) <= 3
    post: not _
    """
    return fields(job_name, job_id, app, etype)


# ---- renaming: span types symbolic (alphabet A,B,C), times concrete ----
ALPHA = ["A", "B", "C"]


def _rename_eval(tidx: list[Any], stub_time: bool) -> Optional[str]:
    c = dict(CFG)
    n = len(c["parents"])
    c["types"] = [ALPHA[t] for t in tidx[:n]]
    return evaluate(c, c["times"], stub_time=stub_time)


def rename(t0: int, t1: int, t2: int, t3: int, t4: int) -> bool:
    """
    pre: 0 <= t0 < 3 and 0 <= t1 < 3 and 0 <= t2 < 3 and 0 <= t3 < 3 and 0 <= t4 < 3
    post: _
    """
    path_tick()
    return _rename_eval([t0, t1, t2, t3, t4], True) is None


def rename_twin(t0: int, t1: int, t2: int, t3: int, t4: int) -> bool:
    """
    pre: 0 <= t0 < 3 and 0 <= t1 < 3 and 0 <= t2 < 3 and 0 <= t3 < 3 and 0 <= t4 < 3
    post: not _
    """
    return _rename_eval([t0, t1, t2, t3, t4], True) is None


# ---- concrete replay on the unstubbed code ----
def replay(args: list[Any], c: dict[str, Any]) -> dict[str, Any]:
    if c.get("kind") == "fields":
        ok = fields(*args)
        return {"violates": not ok, "what": f"field copy fails for strings {args!r}", "sig": "fields"}
    if c.get("kind") == "rename":
        msg = _rename_eval([int(a) for a in args], False)
        return {"violates": msg is not None, "what": (msg or "matches the reference") +
                f" [types {[ALPHA[int(a)] for a in args][:len(c['parents'])]}]", "sig": "rename"}
    ts = [int(a) for a in args]
    if not pre_ok(c, ts):
        return {"violates": False, "what": "counterexample does not satisfy the precondition", "sig": "pre"}
    # real rendering needs end times it can represent; shift nothing: ints are used as given when small
    if max(ts) < 4_000_000_000 * 10**9:
        msg = evaluate(c, ts, stub_time=False)
    else:
        msg = evaluate(c, ts, stub_time=True)
    sig = "links"
    if msg and "raised" in msg:
        sig = "raises"
    return {"violates": msg is not None, "what": msg or "matches the reference", "sig": sig}


try:
    if not CFG:  # warm-up at import so that lazy imports happen outside tracing
        _c = {"parents": [-1, 0], "types": ["R", "A"], "async": True, "group_map": {}, "rename": {}}
        assert evaluate(_c, [0, 9, 1, 2], stub_time=True) is None
    else:
        if CFG.get("kind") == "rename":
            _rename_eval([0, 1, 2, 0, 1], True)
        elif CFG.get("kind") != "fields":
            _n = len(CFG["parents"])
            _ts: list[int] = []
            for _i in range(_n):
                _ts += [10 * _i + 1, 10 * _i + 5]
            evaluate(CFG, _ts, stub_time=True)
except Exception:  # noqa  (a failing warm-up is reported by the conditions themselves)
    pass
