"""CrossHair harness for C03 (in part): the learned state (per event type: set of successor multisets, set of
predecessor multisets) is a function of the set of job graphs only - not of event order, interleaving of jobs,
identifiers, timestamps or repetition.  Real code: EventSet, Event.update_event_sets / update_in_event_sets,
cluster_events_by_job_id, update_and_create_events_from_clustered_pvevents (through the trusted janus stub)."""
from __future__ import annotations

from itertools import permutations
from typing import Any, Optional

from vlib.core import cfg as _cfg, path_tick

from tel2puml.events import Event, EventSet
from tel2puml.pv_to_puml.data_ingestion import (cluster_events_by_job_id,
                                                update_and_create_events_from_clustered_pvevents)

CFG = _cfg()
NAMES = ["A", "B", "C"]
PERMS = {n: list(permutations(range(n))) for n in range(4)}
LISTS = [[], ["A"], ["B"], ["A", "B"], ["A", "A"], ["B", "A"], ["C"], ["A", "B", "B"]]


def ms(xs: list[str]) -> tuple:
    return tuple(sorted((m, xs.count(m)) for m in set(xs)))


# (a) EventSet is a multiset: equality / hash / items independent of order; is_subset = equal-count inclusion
def eventset(x0: int, x1: int, x2: int, p: int) -> bool:
    """
    pre: 0 <= x0 < 3 and 0 <= x1 < 3 and 0 <= x2 < 3 and 0 <= p < 6
    post: _
    """
    path_tick()
    n = CFG.get("len", 3)
    a = [NAMES[x] for x in (x0, x1, x2)[:n]]
    perm = PERMS[n][p % len(PERMS[n])]
    b = [a[k] for k in perm]
    ea, eb = EventSet(a), EventSet(b)
    return (ea == eb and hash(ea) == hash(eb) and tuple(sorted(ea.items())) == ms(a)
            and sorted(ea.to_frozenset()) == sorted(set(a)) and ea.is_subset(eb) and eb.is_subset(ea))


def eventset_twin(x0: int, x1: int, x2: int, p: int) -> bool:
    """
    pre: 0 <= x0 < 3 and 0 <= x1 < 3 and 0 <= x2 < 3 and 0 <= p < 6
    post: not _
    """
    return eventset(x0, x1, x2, p)


def subset(a: int, b: int) -> bool:
    """
    pre: 0 <= a < 8 and 0 <= b < 8
    post: _
    """
    path_tick()
    xs, ys = LISTS[a], LISTS[b]
    ea, eb = EventSet(list(xs)), EventSet(list(ys))
    want_sub = all(xs.count(t) == ys.count(t) for t in set(xs))
    return ea.is_subset(eb) == want_sub and (ea == eb) == (ms(xs) == ms(ys))


def state(e: Event) -> tuple:
    return (tuple(sorted(tuple(sorted(s.items())) for s in e.event_sets)),
            tuple(sorted(tuple(sorted(s.items())) for s in e.in_event_sets)))


# (b) accumulation is commutative and idempotent; the empty list is a no-op
def accumulate(a: int, b: int, c: int) -> bool:
    """
    pre: 0 <= a < 8 and 0 <= b < 8 and 0 <= c < 8 and a == CFG.get("a", a)
    post: _
    """
    path_tick()
    xs, ys, zs = LISTS[a], LISTS[b], LISTS[c]
    orders = [[xs, ys, zs], [zs, ys, xs], [ys, xs, zs, xs, ys], [xs, [], ys, zs, []]]
    states = []
    for o in orders:
        e = Event("E")
        for l in o:
            e.update_event_sets(list(l))
            e.update_in_event_sets(list(reversed(l)))
        states.append(state(e))
    want = tuple(sorted({ms(l) for l in (xs, ys, zs) if l}))
    return all(s == (want, want) for s in states)


def accumulate_twin(a: int, b: int, c: int) -> bool:
    """
    pre: 0 <= a < 8 and 0 <= b < 8 and 0 <= c < 8
    post: not _
    """
    return accumulate(a, b, c)


# (c) clustering by jobId + accumulation: every interleaving of the jobs' events, renamed ids, other timestamps
JOBS = [["A", "B", "C", "A"], ["A", "B", "D", "B"], ["B", "A"]]


def pv_stream(assign: list[int], tag: str, ts: int) -> list[dict[str, Any]]:
    pos = [0, 0, 0]
    last: dict[int, str] = {}
    out = []
    for i, j in enumerate(assign):
        eid = f"{tag}{i}"
        ev: dict[str, Any] = {"jobId": f"{tag}job{j}", "eventId": eid, "eventType": JOBS[j][pos[j] % len(JOBS[j])],
                              "timestamp": f"t{ts + i}", "applicationName": "app", "jobName": "wf"}
        if j in last:
            ev["previousEventIds"] = [last[j]]
        last[j] = eid
        pos[j] += 1
        out.append(ev)
    return out


def learn(stream: list[dict[str, Any]]) -> dict[str, tuple]:
    try:
        clustered = cluster_events_by_job_id(stream)  # type: ignore[arg-type]
        events = update_and_create_events_from_clustered_pvevents(clustered.values())  # type: ignore[arg-type]
    except Exception as e:  # a presentation on which learning fails is a violation, not a harness error
        return {"__raised__": (type(e).__name__,)}
    return {k: state(v) for k, v in events.items()}


def reference(assign: list[int]) -> dict[str, tuple]:
    succ: dict[str, set] = {}
    pred: dict[str, set] = {}
    for j in range(3):
        m = assign.count(j)
        seq = [JOBS[j][k % len(JOBS[j])] for k in range(m)]
        for k, t in enumerate(seq):
            succ.setdefault(t, set())
            pred.setdefault(t, set())
            if k + 1 < m:
                succ[t].add(((seq[k + 1], 1),))
            if k > 0:
                pred[t].add(((seq[k - 1], 1),))
    return {t: (tuple(sorted(succ[t])), tuple(sorted(pred[t]))) for t in succ}


def rgs_ok(xs: list[int], k: int) -> bool:
    mx = -1
    for x in xs:
        if x < 0 or x > mx + 1 or x >= k:
            return False
        mx = max(mx, x)
    return True


def cluster(j1: int, j2: int, j3: int, j4: int, j5: int, rev: bool) -> bool:
    """
    pre: rgs_ok([0, j1, j2, j3, j4, j5][:CFG.get("n", 5)], 3) and all(x == 0 for x in [0, j1, j2, j3, j4, j5][CFG.get("n", 5):])
    pre: all(v == w for v, w in zip([j1, j2], CFG.get("fix") or []))
    post: _
    """
    path_tick()
    assign = [0, j1, j2, j3, j4, j5][:CFG.get("n", 5)]
    s1 = pv_stream(assign, "x", 0)
    s2 = pv_stream(assign, "renamed-", 1000)
    if rev:
        s2 = s2[::-1]      # events of a job presented in the opposite order; links are by id only
    want = reference(assign)
    return learn(s1) == want and learn(s2) == want and learn(s1 + pv_stream(assign, "again", 5)) == want


def cluster_twin(j1: int, j2: int, j3: int, j4: int, j5: int, rev: bool) -> bool:
    """
    pre: rgs_ok([0, j1, j2, j3, j4, j5][:CFG.get("n", 5)], 3) and all(x == 0 for x in [0, j1, j2, j3, j4, j5][CFG.get("n", 5):])
    post: not _
    """
    return cluster(j1, j2, j3, j4, j5, rev)


def replay(args: list[Any], c: dict[str, Any]) -> dict[str, Any]:
    fn = {"eventset": eventset, "subset": subset, "accumulate": accumulate, "cluster": cluster}[c["kind"]]
    ok = fn(*args)
    return {"violates": not ok, "sig": c["kind"], "what": f"{c['kind']}{tuple(args)} is not order/identifier independent"}


try:  # warm-up (lazy imports happen outside tracing); a failure here is reported by the conditions, not at import
    eventset(0, 1, 1, 4)
    subset(3, 5)
    accumulate(3, 5, 7)
    cluster(1, 0, 2, 1, 0, True)
except Exception:  # noqa
    pass
