"""CrossHair harness for C06 (in part): the AND-under-OR recovery kernel.
Real code: tel2puml.utils.get_weighted_cover and tel2puml.logic_detection.process_missing_and_gates
(on hand-built pm4py ProcessTree objects; the inductive miner itself is outside the claim).
Symbolic: the family of observed successor sets, as presence bits of the non-empty subsets of the universe."""
from __future__ import annotations

import itertools
from typing import Any, Optional

from vlib.core import cfg as _cfg, path_tick, untraced

from pm4py.objects.process_tree.obj import Operator, ProcessTree
from tel2puml.events import EventSet
from tel2puml.logic_detection import process_missing_and_gates
from tel2puml.utils import get_weighted_cover

CFG = _cfg()
U = ["A", "B", "C", "D"]


def subsets(k: int) -> list[frozenset]:
    return [frozenset(U[i] for i in range(k) if m >> i & 1) for m in range(1, 2 ** k)]


def partitions_within(family: set[frozenset], universe: frozenset) -> list[list[frozenset]]:
    """all partitions of `universe` into members of `family`"""
    if not universe:
        return [[]]
    first = min(universe)
    out = []
    for s in family:
        if first in s and s <= universe:
            for rest in partitions_within(family, universe - s):
                out.append([s] + rest)
    return out


def closure(part: list[frozenset]) -> set[frozenset]:
    out = set()
    for r in range(1, len(part) + 1):
        for combo in itertools.combinations(part, r):
            out.add(frozenset().union(*combo))
    return out


def union_of(es: frozenset, cover: list[frozenset]) -> bool:
    acc: frozenset = frozenset()
    for c in cover:
        if c <= es:
            acc = acc | c
    return acc == es


class OSet:
    """a set with a chosen iteration order (what a different hash seed gives the real set)"""

    def __init__(self, items: list[frozenset]):
        self.items = list(items)

    def __contains__(self, x: Any) -> bool:
        return any(x == y for y in self.items)

    def remove(self, x: Any) -> None:
        self.items = [y for y in self.items if y != x]

    def __iter__(self) -> Any:
        return iter(list(self.items))

    def __len__(self) -> int:
        return len(self.items)


def orders_of(fam: set[frozenset]) -> list[list[frozenset]]:
    base = sorted(fam, key=lambda s: (len(s), sorted(s)))
    return [base, base[::-1], base[1:] + base[:1], base[2:] + base[:2]]


def judge_one(got: Any, fam: set[frozenset], universe: frozenset) -> Optional[str]:
    work = {s for s in fam if s != universe}
    valid = [p for p in partitions_within(work, universe) if all(union_of(es, p) for es in work)]
    if got is None:
        # completeness is demanded only where the property demands exactness: the family is exactly the outcome family of
        # an OR over AND-groups / plain events (all non-empty unions of the blocks of a partition with >= 2 blocks)
        for part in valid:
            if len(part) >= 2 and closure(part) == set(fam) | {universe}:
                return f"no cover returned although the observed sets are exactly the outcomes of OR over {sorted(map(sorted, part))}"
        return None
    g = list(got)
    if any(c not in work for c in g):
        return f"cover {g} uses a set that was not observed"
    if frozenset().union(*g) != universe or sum(len(c) for c in g) != len(universe):
        return f"cover {g} is not a partition of {sorted(universe)}"
    if not all(union_of(es, g) for es in work):
        return f"cover {g} does not explain every observed set of {sorted(map(sorted, work))}"
    return None


def judge_cover(fam: set[frozenset], universe: frozenset) -> Optional[str]:
    """C06: sound (and complete in the exactness class) for the real set and for every presented iteration order"""
    # the REAL kernel runs traced; the brute-force oracle works on path-concrete sets and runs untraced
    got = get_weighted_cover({frozenset(s) for s in fam}, frozenset(universe))
    msg = untraced(lambda: judge_one(got, fam, universe))
    if msg:
        return msg
    for order in untraced(lambda: orders_of(fam)):
        alt = get_weighted_cover(OSet([frozenset(s) for s in order]), frozenset(universe))  # type: ignore[arg-type]
        msg = untraced(lambda: judge_one(alt, fam, universe))
        if msg:
            return msg + f" [iteration order {[sorted(s) for s in order]}]"
    return None


def judge_order(fam: set[frozenset], universe: frozenset) -> Optional[str]:
    """C03 (hash-seed dimension of this kernel): the answer does not depend on the iteration order of the observed sets"""
    got = get_weighted_cover({frozenset(s) for s in fam}, frozenset(universe))
    for order in orders_of(fam):
        alt = get_weighted_cover(OSet([frozenset(s) for s in order]), frozenset(universe))  # type: ignore[arg-type]
        if (alt is None) != (got is None) or (alt is not None and {frozenset(x) for x in alt} != {frozenset(x) for x in got}):
            return (f"cover depends on the iteration order of the observed sets: {got} vs {alt} "
                    f"(family {sorted(map(sorted, fam))}, order {[sorted(s) for s in order]})")
    return None


def outcomes(t: ProcessTree) -> set[frozenset]:
    if t.operator is None:
        return {frozenset([t.label])}
    kids = [outcomes(c) for c in t.children]
    op = t.operator.value
    if op == Operator.XOR.value:
        return set().union(*kids)
    if op == Operator.PARALLEL.value:
        return {frozenset().union(*combo) for combo in itertools.product(*kids)}
    if op == Operator.OR.value:
        out = set()
        for r in range(1, len(kids) + 1):
            for chosen in itertools.combinations(kids, r):
                out |= {frozenset().union(*combo) for combo in itertools.product(*chosen)}
        return out
    raise ValueError(op)


def leaves(t: ProcessTree) -> list[str]:
    if t.operator is None:
        return [t.label]
    return sorted(x for c in t.children for x in leaves(c))


def build_or(k: int, extra_gate: bool) -> ProcessTree:
    root = ProcessTree(Operator.OR, None, [])
    root.children = [ProcessTree(label=U[i], parent=root) for i in range(k)]
    if extra_gate:
        x = ProcessTree(Operator.XOR, root, [])
        x.children = [ProcessTree(label="X1", parent=x), ProcessTree(label="X2", parent=x)]
        root.children.append(x)
    return root


def judge_gates(fam: set[frozenset], k: int, extra_gate: bool) -> Optional[str]:
    # inputs and oracle are computed outside tracing (the family is concrete on this path; CrossHair's symbolic
    # hash() cannot be stored in C-level sets); the REAL kernel runs traced
    def prepare() -> tuple[ProcessTree, list[str], set[EventSet]]:
        tree = build_or(k, extra_gate)
        observed = {EventSet(sorted(s)) for s in fam}
        if extra_gate:
            observed |= {EventSet(sorted(s) + ["X1"]) for s in fam} | {EventSet(["X2"])}
        return tree, leaves(tree), observed
    tree, before_leaves, observed = untraced(prepare)
    process_missing_and_gates(observed, tree)

    def oracle() -> Optional[str]:
        if leaves(tree) != before_leaves:
            return f"events {before_leaves} became {leaves(tree)} (family {sorted(map(sorted, fam))})"
        adm = outcomes(tree)
        for es in observed:
            if frozenset(es.keys()) not in adm:
                return f"observed set {sorted(es)} is not admitted by the gate tree {tree} (family {sorted(map(sorted, fam))})"
        return None
    return untraced(oracle)


def family(bits: list[Any], k: int) -> set[frozenset]:
    return {s for s, b in zip(subsets(k), bits) if b}


def _pre(bits: list[Any], k: int) -> bool:
    n = 2 ** k - 1
    fx = CFG.get("fix") or []
    if not (all(b in (0, 1) for b in bits[:n]) and all(b == 0 for b in bits[n:]) and any(b == 1 for b in bits[:n])
            and all(bits[i] == v for i, v in enumerate(fx))):
        return False
    mx = CFG.get("max_sets")
    if mx is not None:
        tot = 0
        for b in bits[:n]:
            tot += b
        if tot > mx:
            return False
    return True


def pre15(b0: int, b1: int, b2: int, b3: int, b4: int, b5: int, b6: int, b7: int, b8: int, b9: int, b10: int,
          b11: int, b12: int, b13: int, b14: int) -> bool:
    return _pre([b0, b1, b2, b3, b4, b5, b6, b7, b8, b9, b10, b11, b12, b13, b14], CFG.get("k", 3))


def check(b0: int, b1: int, b2: int, b3: int, b4: int, b5: int, b6: int, b7: int, b8: int, b9: int, b10: int,
          b11: int, b12: int, b13: int, b14: int) -> bool:
    """
    pre: pre15(b0, b1, b2, b3, b4, b5, b6, b7, b8, b9, b10, b11, b12, b13, b14)
    post: _
    """
    path_tick()
    k = CFG.get("k", 3)
    fam = family([b0, b1, b2, b3, b4, b5, b6, b7, b8, b9, b10, b11, b12, b13, b14], k)
    if CFG.get("kind") == "gates":
        return judge_gates(fam, k, bool(CFG.get("extra"))) is None
    universe = frozenset(U[:k]) if not CFG.get("sub") else frozenset().union(*fam)
    if CFG.get("kind") == "order":
        return judge_order(fam, universe) is None
    return judge_cover(fam, universe) is None


def twin(b0: int, b1: int, b2: int, b3: int, b4: int, b5: int, b6: int, b7: int, b8: int, b9: int, b10: int,
         b11: int, b12: int, b13: int, b14: int) -> bool:
    """
    pre: pre15(b0, b1, b2, b3, b4, b5, b6, b7, b8, b9, b10, b11, b12, b13, b14)
    post: not _
    """
    k = CFG.get("k", 3)
    fam = family([b0, b1, b2, b3, b4, b5, b6, b7, b8, b9, b10, b11, b12, b13, b14], k)
    return judge_cover(fam, frozenset(U[:k])) is None


# ---- families given as an increasing tuple of subset indices (no wasted paths: used by the thorough tier for |U| = 4) ----
def pre_idx(c: int, i1: int, i2: int, i3: int, i4: int, i5: int) -> bool:
    k = CFG.get("k", 4)
    n = 2 ** k - 1
    idx = [i1, i2, i3, i4, i5]
    if not (1 <= c <= CFG.get("max_sets", 5)) or c != CFG.get("count", c):
        return False
    if any(x != 0 for x in idx[c:]):
        return False
    prev = -1
    for x in idx[:c]:
        if not (prev < x < n):
            return False
        prev = x
    return idx[0] == CFG.get("first", idx[0])


def family_idx(c: int, idx: list[Any], k: int) -> set[frozenset]:
    subs = subsets(k)
    return {subs[i] for i in idx[:c]}


def check_idx(c: int, i1: int, i2: int, i3: int, i4: int, i5: int) -> bool:
    """
    pre: pre_idx(c, i1, i2, i3, i4, i5)
    post: _
    """
    path_tick()
    k = CFG.get("k", 4)
    fam = family_idx(c, [i1, i2, i3, i4, i5], k)
    if CFG.get("kind") == "gates":
        return judge_gates(fam, k, bool(CFG.get("extra"))) is None
    return judge_cover(fam, frozenset(U[:k])) is None


def replay(args: list[Any], c: dict[str, Any]) -> dict[str, Any]:
    if c.get("idx"):
        k = c.get("k", 4)
        a = [int(x) for x in args]
        fam = family_idx(a[0], a[1:6], k)
        msg = judge_gates(fam, k, bool(c.get("extra"))) if c.get("kind") == "gates" else judge_cover(fam, frozenset(U[:k]))
        return {"violates": msg is not None, "sig": c.get("kind", "cover"), "what": msg or "kernel result is sound and complete"}
    k = c.get("k", 3)
    fam = family([int(a) for a in args], k)
    if c.get("kind") == "gates":
        msg = judge_gates(fam, k, bool(c.get("extra")))
    elif c.get("kind") == "order":
        msg = judge_order(fam, frozenset(U[:k]) if not c.get("sub") else frozenset().union(*fam))
    else:
        msg = judge_cover(fam, frozenset(U[:k]) if not c.get("sub") else frozenset().union(*fam))
    return {"violates": msg is not None, "sig": c.get("kind", "cover"), "what": msg or "kernel result is sound and complete"}


try:  # warm-up
    judge_cover({frozenset("AB"), frozenset("C"), frozenset("ABC")}, frozenset("ABC"))
    judge_gates({frozenset("AB"), frozenset("C"), frozenset("ABC")}, 3, False)
    judge_gates({frozenset("A"), frozenset("B")}, 2, True)
except Exception:  # noqa
    pass
