"""CrossHair harness for C13, clause 'records that cannot form a valid span are skipped without affecting the
others, in whole-file and one-JSON-per-line modes alike'.

Real code: JSONDataSource.__next__, parse_json_stream, get_jsons_from_file (json_datasource.py) and the real
OTelEvent validation.  The jq program is stubbed: a document is {"records": [...]} and the stub returns that list
(the extraction itself is decided separately by translation validation, checks/c13.py part B).  File I/O is in memory.
Symbolic: per record whether it is valid, lacks a mandatory field, or has a value of the wrong type; the mode."""
from __future__ import annotations

import io
import json
import logging
from typing import Any, Optional

from vlib.core import cfg as _cfg, path_tick

import tel2puml.otel_to_pv.data_sources.json_data_source.json_datasource as jds
from tel2puml.otel_to_pv.otel_to_pv_types import OTelEvent

logging.disable(logging.CRITICAL)
CFG = _cfg()
FILES: dict[str, str] = {}


class _Bar:
    def update(self, *_a: Any) -> None:
        return None

    def close(self) -> None:
        return None


class _Cfg:
    def __init__(self, per_line: bool):
        self.json_per_line = per_line


def fake_open(path: str, mode: str = "r", **_k: Any) -> Any:
    return io.StringIO(FILES[path])


SEPS = ["", "\x0b", "\x0c", "\x1c", "\x1d", "\x1e", "\x85", "\u2028", "\u2029", "\x1b", "\t"]


def record(i: int, kind: int, sep: int = 0) -> dict[str, Any]:
    r: dict[str, Any] = {"job_name": "w" + SEPS[sep] + "f", "job_id": f"t{i}", "event_type": f"T{i}", "event_id": f"e{i}",
                         "start_timestamp": "10", "end_timestamp": 20, "application_name": "app", "parent_event_id": None}
    if kind == 1:
        del r["event_id"]
    elif kind == 2:
        r["start_timestamp"] = "not a number"
    elif kind == 3:
        r["job_name"] = None
    return r


def scenario(kinds: list[int], per_line: bool, split: int, sep: int = 0) -> Optional[str]:
    recs = [record(i, k, sep if i == 0 else 0) for i, k in enumerate(kinds)]
    FILES.clear()
    if per_line:
        # raw (unescaped) characters inside string leaves, as a producer that does not escape them would write
        FILES["/d/a.json"] = "\n".join(json.dumps({"records": part}, ensure_ascii=False).replace("\\u000b", "\x0b")
                                       .replace("\\f", "\x0c").replace("\\u001c", "\x1c").replace("\\u001d", "\x1d")
                                       .replace("\\u001e", "\x1e").replace("\\u001b", "\x1b").replace("\\t", "\t")
                                       for part in (recs[:split], recs[split:]))
        files = ["/d/a.json"]
    else:
        FILES["/d/a.json"] = json.dumps({"records": recs[:split]}, indent=1)
        FILES["/d/b.json"] = json.dumps({"records": recs[split:]}, indent=1)
        files = ["/d/a.json", "/d/b.json"]
    src = jds.JSONDataSource.__new__(jds.JSONDataSource)
    src.config = _Cfg(per_line)  # type: ignore[assignment]
    src.current_file_index = 0
    src.current_parser = None
    src.file_list = files
    src.compiled_jq = None
    src.file_pbar = src.events_pbar = src.event_error_pbar = _Bar()  # type: ignore[assignment]
    saved = (getattr(jds, "open", None), jds.generate_records_from_compiled_jq)
    jds.open = fake_open  # type: ignore[attr-defined]
    jds.generate_records_from_compiled_jq = lambda data, cj: iter(data["records"])  # type: ignore[assignment]
    try:
        try:
            got = [e.event_id for e in src]
        except Exception as e:  # noqa
            return f"iteration raised {type(e).__name__}: {e}"
    finally:
        if saved[0] is None:
            del jds.open  # type: ignore[attr-defined]
        else:
            jds.open = saved[0]  # type: ignore[attr-defined]
        jds.generate_records_from_compiled_jq = saved[1]  # type: ignore[assignment]
    want = [f"e{i}" for i, k in enumerate(kinds) if k == 0]
    if got != want:
        return f"yielded spans {got}, valid records are {want} (kinds {kinds}, per_line {per_line}, split {split})"
    return None


def pre(k0: int, k1: int, k2: int, k3: int, per_line: bool, split: int) -> bool:
    n, kmax = CFG.get("n", 4), CFG.get("kinds", 4) - 1
    ks = [k0, k1, k2, k3]
    if any(k != 0 for k in ks[n:]) or not all(0 <= k <= kmax for k in ks[:n]):
        return False
    if k0 != CFG.get("k0", k0) or per_line != CFG.get("per_line", per_line):
        return False
    return 0 <= split <= n


def blank_tail(k0: int, k1: int, k2: int, blanks: int) -> bool:
    """
    pre: 0 <= k0 <= 2 and 0 <= k1 <= 2 and 0 <= k2 <= 2 and 0 <= blanks <= 2
    post: _
    """
    path_tick()
    return scenario_blank([k0, k1, k2], blanks) is None


def scenario_blank(kinds: list[int], blanks: int) -> Optional[str]:
    """one-JSON-per-line file holding ONE document followed by 0..2 blank lines: every valid record exactly once"""
    recs = [record(i, k) for i, k in enumerate(kinds)]
    FILES.clear()
    FILES["/d/a.json"] = json.dumps({"records": recs}) + "\n" + "\n" * blanks
    src = jds.JSONDataSource.__new__(jds.JSONDataSource)
    src.config = _Cfg(True)  # type: ignore[assignment]
    src.current_file_index = 0
    src.current_parser = None
    src.file_list = ["/d/a.json"]
    src.compiled_jq = None
    src.file_pbar = src.events_pbar = src.event_error_pbar = _Bar()  # type: ignore[assignment]
    saved = (getattr(jds, "open", None), jds.generate_records_from_compiled_jq)
    jds.open = fake_open  # type: ignore[attr-defined]
    jds.generate_records_from_compiled_jq = lambda data, cj: iter(data["records"])  # type: ignore[assignment]
    try:
        try:
            got = [e.event_id for e in src]
        except Exception as e:  # noqa
            return f"iteration raised {type(e).__name__}: {e}"
    finally:
        if saved[0] is None:
            del jds.open  # type: ignore[attr-defined]
        else:
            jds.open = saved[0]  # type: ignore[attr-defined]
        jds.generate_records_from_compiled_jq = saved[1]  # type: ignore[assignment]
    want = [f"e{i}" for i, k in enumerate(kinds) if k == 0]
    if got != want:
        return f"yielded spans {got}, valid records are {want} (one document line followed by {blanks} blank lines)"
    return None


def separators(sep: int, split: int) -> bool:
    """
    pre: 0 <= sep < 11 and 0 <= split <= 3
    post: _
    """
    path_tick()
    return scenario([0, 0, 0], True, split, sep) is None and scenario([0, 0, 0], False, split, sep) is None


def check(k0: int, k1: int, k2: int, k3: int, per_line: bool, split: int) -> bool:
    """
    pre: pre(k0, k1, k2, k3, per_line, split)
    post: _
    """
    path_tick()
    return scenario([k0, k1, k2, k3][:CFG.get("n", 4)], per_line, split) is None


def twin(k0: int, k1: int, k2: int, k3: int, per_line: bool, split: int) -> bool:
    """
    pre: pre(k0, k1, k2, k3, per_line, split)
    post: not _
    """
    return scenario([k0, k1, k2, k3][:CFG.get("n", 4)], per_line, split) is None


def replay(args: list[Any], c: dict[str, Any]) -> dict[str, Any]:
    if c.get("kind") == "blank":
        msg = scenario_blank([int(a) for a in args[:3]], int(args[3]))
        return {"violates": msg is not None, "sig": "record-skip", "what": msg or "ok"}
    if c.get("kind") == "separators":
        msg = scenario([0, 0, 0], True, int(args[1]), int(args[0])) or scenario([0, 0, 0], False, int(args[1]), int(args[0]))
        return {"violates": msg is not None, "sig": "record-skip", "what": (msg or "ok") + f" [character {SEPS[int(args[0])]!r} inside a string leaf]"}
    msg = scenario([int(a) for a in args[:4]][:c.get("n", 4)], bool(args[4]), int(args[5]))
    return {"violates": msg is not None, "sig": "record-skip", "what": msg or "valid records are yielded, invalid ones skipped"}


try:
    scenario([0, 1, 0, 2], True, 2)
    scenario([3, 0, 0, 1], False, 1)
except Exception:  # noqa
    pass
