"""CrossHair harness for C10: the real ingestion path (IngestData.load_to_data_holder ->
DataHolder.save_data -> SQLDataHolder batching / integrity-error fallback) on the model store.

Concrete per condition: stream length n, batch size, split point (second run with a fresh holder
on the same store), optionally a fixed prefix of the duplicate pattern (sharding).
Symbolic: the equality pattern of the span ids (restricted-growth string) and, per span, whether
it has a parent (the first id of the stream) or none.
"""
from __future__ import annotations

import logging
import os
import tempfile
from typing import Any, Optional

from vlib.core import cfg as _cfg, path_tick
from vlib import modelstore as M, sqlvalidate as V

from tel2puml.otel_to_pv.ingest_otel_data import IngestData
from tel2puml.otel_to_pv.otel_to_pv_types import OTelEvent

logging.disable(logging.CRITICAL)
CFG = _cfg()
IDS = ["a", "b", "c", "d", "e"]


def rgs_ok(ids: list[int]) -> bool:
    """restricted-growth string: a canonical representative of every equality pattern"""
    mx = -1
    for i in ids:
        if i < 0 or i > mx + 1:
            return False
        if i > mx:
            mx = i
    return True


def events(ids: list[Any], pars: list[Any]) -> list[OTelEvent]:
    out = []
    for n, (i, p) in enumerate(zip(ids, pars)):
        eid = IDS[i]
        parent: Optional[str] = None
        if p == 1:
            # a child of the first id; the first id itself writes "no parent" as the EMPTY STRING (as OTLP/JSON exporters do):
            # it must be stored as a root (NULL parent) without a link row
            parent = IDS[0] if eid != IDS[0] else ""
        out.append(OTelEvent.model_construct(
            job_name=f"name{n}", job_id=f"t{n % 2}", event_type=f"T{n}", event_id=eid,
            start_timestamp=10 + (n * 3) % 5, end_timestamp=20 + n, application_name=f"app{n}",   # arrival order != start order
            parent_event_id=parent, child_event_ids=None))
    return out


def expected(evs: list[OTelEvent]) -> tuple[list[tuple], list[tuple]]:
    seen: list[str] = []
    nodes, assoc = [], []
    for e in evs:
        if e.event_id in seen:
            continue
        seen.append(e.event_id)
        nodes.append((e.job_name, e.job_id, e.event_type, e.event_id, e.start_timestamp, e.end_timestamp,
                      e.application_name, e.parent_event_id or None))
        if e.parent_event_id:
            assoc.append((e.parent_event_id, e.event_id))
    return nodes, sorted(assoc)


def run_model(c: dict[str, Any], evs: list[OTelEvent]) -> Optional[str]:
    store = M.Store()
    k = c["split"]
    for chunk in ([evs[:k], evs[k:]] if 0 < k < len(evs) else [evs]):
        h = V.model_holder(store, c["batch"], 0)
        try:
            IngestData(chunk, h).load_to_data_holder()  # type: ignore[arg-type]
        except Exception as e:  # noqa
            return f"ingestion raised {type(e).__name__}: {e}"
        # the time window of this process is derived from what it ingested (duplicates included: they were seen)
        if chunk and (h.min_timestamp != min(e.start_timestamp for e in chunk) or h.max_timestamp != max(e.end_timestamp for e in chunk)):
            return f"tracked time range [{h.min_timestamp}, {h.max_timestamp}] is not the range of the ingested spans"
    d = V.dump_model(store)
    want_nodes, want_assoc = expected(evs)
    if sorted(d["nodes"], key=lambda r: r[3]) != sorted(want_nodes, key=lambda r: r[3]):   # row order is not part of the property
        return f"stored spans {d['nodes']} != first occurrences {want_nodes}"
    if d["assoc"] != want_assoc:
        return f"stored links {d['assoc']} != links of the stored spans {want_assoc}"
    return None


def run_real(c: dict[str, Any], evs: list[OTelEvent]) -> Optional[str]:
    tmp = tempfile.mkdtemp(prefix="c10_")
    uri = f"sqlite:///{tmp}/db.sqlite"
    try:
        k = c["split"]
        last = None
        for chunk in ([evs[:k], evs[k:]] if 0 < k < len(evs) else [evs]):
            h = V.real_holder(c["batch"], 0, uri)
            last = h
            try:
                IngestData([e.model_copy() for e in chunk], h).load_to_data_holder()  # type: ignore[arg-type]
            except Exception as e:  # noqa
                return f"ingestion raised {type(e).__name__}: {str(e)[:200]}"
        d = V.dump_real(last)  # type: ignore[arg-type]
        last.engine.dispose()  # type: ignore[union-attr]
    finally:
        for f in os.listdir(tmp):
            os.unlink(os.path.join(tmp, f))
        os.rmdir(tmp)
    want_nodes, want_assoc = expected(evs)
    if sorted(d["nodes"], key=lambda r: r[3]) != sorted(want_nodes, key=lambda r: r[3]):   # row order is not part of the property
        return f"stored spans {d['nodes']} != first occurrences {want_nodes}"
    if d["assoc"] != want_assoc:
        return f"stored links {d['assoc']} != links of the stored spans {want_assoc}"
    return None


def _args(c: dict[str, Any], ids: list[Any], pars: list[Any]) -> tuple[list[Any], list[Any]]:
    n = c["n"]
    pre = c.get("prefix") or []
    ids = [0] + list(pre) + list(ids[1 + len(pre):n])
    pp = c.get("pprefix") or []
    return ids, list(pp) + list(pars[len(pp):n])


def pre5(i1: int, i2: int, i3: int, i4: int, p0: int, p1: int, p2: int, p3: int, p4: int) -> bool:
    ids, pars = _args(CFG, [0, i1, i2, i3, i4], [p0, p1, p2, p3, p4])
    n = CFG["n"]
    # unused arguments are pinned so that they do not multiply paths
    free = [i1, i2, i3, i4][len(CFG.get("prefix") or []):n - 1]
    pinned = [i1, i2, i3, i4][:len(CFG.get("prefix") or [])] + [i1, i2, i3, i4][n - 1:]
    npp = len(CFG.get("pprefix") or [])
    if any(x != 0 for x in pinned) or any(p != 0 for p in [p0, p1, p2, p3, p4][n:] + [p0, p1, p2, p3, p4][:npp]):
        return False
    return rgs_ok(ids) and all(0 <= p <= 1 for p in pars) and all(0 <= x < 5 for x in free)


def check(i1: int, i2: int, i3: int, i4: int, p0: int, p1: int, p2: int, p3: int, p4: int) -> bool:
    """
    pre: pre5(i1, i2, i3, i4, p0, p1, p2, p3, p4)
    post: _
    """
    path_tick()
    ids, pars = _args(CFG, [0, i1, i2, i3, i4], [p0, p1, p2, p3, p4])
    return run_model(CFG, events(ids, pars)) is None


def twin(i1: int, i2: int, i3: int, i4: int, p0: int, p1: int, p2: int, p3: int, p4: int) -> bool:
    """
    pre: pre5(i1, i2, i3, i4, p0, p1, p2, p3, p4)
    post: not _
    """
    ids, pars = _args(CFG, [0, i1, i2, i3, i4], [p0, p1, p2, p3, p4])
    return run_model(CFG, events(ids, pars)) is None


def replay(args: list[Any], c: dict[str, Any]) -> dict[str, Any]:
    a = [int(x) for x in args]
    ids, pars = _args(c, [0] + a[:4], a[4:9])
    evs = events(ids, pars)
    msg = run_real(c, evs)
    model_msg = run_model(c, evs)
    sig = "ingest-raises" if msg and "raised" in msg else "ingest-store"
    return {"violates": msg is not None, "what": (msg or "real SQLite stores exactly the first occurrences") +
            f" [ids {[e.event_id for e in evs]}, parents {[e.parent_event_id for e in evs]}, batch {c['batch']}, split {c['split']}]",
            "sig": sig, "model_says": model_msg}


try:  # warm-up
    if CFG:
        run_model(CFG, events([0, 0, 1, 1, 2][:CFG["n"]], [0, 1, 1, 0, 1][:CFG["n"]]))
    else:
        run_model({"n": 4, "batch": 2, "split": 2}, events([0, 0, 1, 1], [0, 1, 1, 0]))
except Exception:  # noqa  (a failing warm-up is reported by the conditions themselves)
    pass
