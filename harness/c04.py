"""CrossHair harness for C04 (in part): cache coherence of the gate tree across mutators and the save/load
boundary, and loss-free round trip of the model (events, successor/predecessor sets, counts).

Real code: Event (__init__, update_event_sets, update_in_event_sets, remove_event_type_from_event_sets,
logic_gate_tree getter), events_to_raw_input / raw_input_to_events (the pydantic models the -om / -im files use;
the JSON text goes through json.dumps/loads).  calculate_logic_gates (pm4py) is replaced by a deterministic
marker G(sets): the obligation is that every read of logic_gate_tree equals G(current successor sets).
Symbolic: a history of 3 operations, each drawn from 11 operation codes."""
from __future__ import annotations

import json
from typing import Any, Optional

from vlib.core import cfg as _cfg, path_tick

import tel2puml.events as ev
from tel2puml.events import Event, events_to_raw_input, raw_input_to_events

CFG = _cfg()
LISTS = [["B"], ["C"], ["B", "C"], ["B", "B"]]


def marker(event_sets: Any) -> Any:
    if len(event_sets) == 0:
        return None
    return ("tree", tuple(sorted(tuple(sorted(s.items())) for s in event_sets)))


def ms(xs: list[str]) -> tuple:
    return tuple(sorted((m, xs.count(m)) for m in set(xs)))


def apply_history(ops: list[int]) -> Optional[str]:
    saved = ev.calculate_logic_gates
    ev.calculate_logic_gates = marker  # type: ignore[assignment]
    try:
        e = Event("A")
        events = {"A": e, "Z": Event("Z")}
        events["Z"].update_in_event_sets(["A", "A"])
        out: set = set()
        inn: set = set()
        for k, op in enumerate(ops):
            if op < 4:
                events["A"].update_event_sets(list(LISTS[op]))
                out.add(ms(LISTS[op]))
            elif op < 8:
                events["A"].update_in_event_sets(list(LISTS[op - 4]))
                inn.add(ms(LISTS[op - 4]))
            elif op == 8:
                events["A"].remove_event_type_from_event_sets("B")
                out = {s for s in out if not any(t == "B" for t, _ in s)}
            elif op == 9:
                pass  # read only (below)
            elif op == 10:
                text = json.dumps(events_to_raw_input(events))       # what -om writes
                events = raw_input_to_events(json.loads(text))       # what -im reads
                if sorted(events) != ["A", "Z"]:
                    return f"after save/load the model holds events {sorted(events)}"
            a = events["A"]
            got_out = {tuple(sorted(s.items())) for s in a.event_sets}
            got_in = {tuple(sorted(s.items())) for s in a.in_event_sets}
            if got_out != out or got_in != inn:
                return f"after {ops[:k+1]}: successor sets {sorted(got_out)} / predecessor sets {sorted(got_in)}, expected {sorted(out)} / {sorted(inn)}"
            if {tuple(sorted(s.items())) for s in events["Z"].in_event_sets} != {(("A", 2),)}:
                return f"after {ops[:k+1]}: predecessor set of Z lost its count: {[dict(s) for s in events['Z'].in_event_sets]}"
            if op in (9, 10) or k == len(ops) - 1:
                tree = a.logic_gate_tree
                want = marker(a.event_sets)
                if tree != want:
                    return f"after {ops[:k+1]}: logic_gate_tree is {tree!r} but the successor sets give {want!r}"
        return None
    finally:
        ev.calculate_logic_gates = saved  # type: ignore[assignment]


def pre(o1: int, o2: int, o3: int, o4: int) -> bool:
    n = CFG.get("len", 3)
    ops = [o1, o2, o3, o4]
    if any(o != 0 for o in ops[n:]) or not all(0 <= o <= 10 for o in ops[:n]):
        return False
    return o1 == CFG.get("o1", o1) and o2 == CFG.get("o2", o2)


def check(o1: int, o2: int, o3: int, o4: int) -> bool:
    """
    pre: pre(o1, o2, o3, o4)
    post: _
    """
    path_tick()
    return apply_history([o1, o2, o3, o4][:CFG.get("len", 3)]) is None


def twin(o1: int, o2: int, o3: int, o4: int) -> bool:
    """
    pre: pre(o1, o2, o3, o4)
    post: not _
    """
    return apply_history([o1, o2, o3, o4][:CFG.get("len", 3)]) is None


def replay(args: list[Any], c: dict[str, Any]) -> dict[str, Any]:
    msg = apply_history([int(a) for a in args][:c.get("len", 3)])
    return {"violates": msg is not None, "sig": "model-roundtrip", "what": msg or "history keeps cache and model coherent"}


try:
    apply_history([2, 10, 9])
    apply_history([7, 8, 10])
except Exception:  # noqa
    pass


# --------------------------------------------------------------------------
# chunked learning through the real model plumbing (pv_streams_to_puml_files, save/load of <job>_model.json),
# compared at the level of the LEARNED STATE; the diagram stages of pv_to_puml_string are stubbed out
# --------------------------------------------------------------------------
import io as _io

import tel2puml.pv_to_puml.pv_to_puml as pvp

FILES: dict[str, str] = {}
JOBNAMES = ["wf", "Order Service"]
JOBS = [[("A", None), ("B", 0), ("C", 1)], [("A", None), ("D", 0), ("C", 1)], [("X", None), ("B", 0), ("C", 1)]]


class _W(_io.StringIO):
    def __init__(self, path: str):
        super().__init__()
        self.path = path

    def close(self) -> None:
        FILES[self.path] = self.getvalue()
        super().close()


def _open(path: str, mode: str = "r", **_k: Any) -> Any:
    if "w" in mode:
        return _W(path)
    return _io.StringIO(FILES[path])


class _Path:
    @staticmethod
    def isfile(p: str) -> bool:
        return p in FILES

    @staticmethod
    def join(*a: str) -> str:
        return "/".join(a)


class _OS:
    path = _Path


class _Quiet:
    @staticmethod
    def write(*_a: Any, **_k: Any) -> None:
        return None


class _Diagram:
    def write_puml_string(self, name: str) -> str:
        return f"stub diagram of {name}"


def job_events(j: int, tag: str) -> list[dict[str, Any]]:
    out = []
    for i, (typ, prev) in enumerate(JOBS[j]):
        e: dict[str, Any] = {"jobId": f"{tag}{j}", "eventId": f"{tag}{j}e{i}", "eventType": typ, "timestamp": "t",
                             "applicationName": "app", "jobName": "n"}
        if prev is not None:
            e["previousEventIds"] = [f"{tag}{j}e{prev}"]
        out.append(e)
    return out


def model_state(path: str) -> Any:
    data = json.loads(FILES[path])
    return (data["job_name"], sorted(
        (e["eventType"],
         sorted(sorted((c["eventType"], c["count"]) for c in s) for s in e["outgoingEventSets"]),
         sorted(sorted((c["eventType"], c["count"]) for c in s) for s in e["incomingEventSets"])) for e in data["events"]))


def chunked(in_second: list[int], name_idx: int) -> Optional[str]:
    name = JOBNAMES[name_idx]
    FILES.clear()
    stubs = {"create_graph_from_events": lambda evs: None, "detect_loops": lambda g: None,
             "create_node_graph_from_event_graph": lambda g: None, "update_nested_node_graph_with_break_points": lambda g: None,
             "find_and_add_loop_kill_paths_to_nested_graphs": lambda g: None, "walk_nested_graph": lambda g: _Diagram(),
             "update_nested_sub_graphs_for_dummy_break_event_nodes": lambda g: None,
             "remove_dummy_start_and_end_events_from_nested_graphs": lambda g: None, "tqdm": _Quiet, "open": _open, "os": _OS}
    saved = {k: getattr(pvp, k, None) for k in stubs}
    saved_ev = (getattr(ev, "open", None), ev.os)
    for k, v in stubs.items():
        setattr(pvp, k, v)
    ev.open = _open  # type: ignore[attr-defined]
    ev.os = _OS  # type: ignore[assignment]
    try:
        try:
            first = [job_events(j, "a") for j in range(3) if not in_second[j]]
            second = [job_events(j, "a") for j in range(3) if in_second[j]]
            pvp.pv_streams_to_puml_files([(name, [job_events(j, "s") for j in range(3)])], "/single", {}, True)
            pvp.pv_streams_to_puml_files([(name, first)], "/run1", {}, True)
            models = [p for p in FILES if p.startswith("/run1/") and p.endswith("_model.json")]
            if len(models) != 1:
                return f"first run wrote model files {models}"
            loaded_name, loaded = ev.load_events_from_file(models[0])           # what -im does (otel_to_puml)
            pvp.pv_streams_to_puml_files([(name, second)], "/run2", {loaded_name: loaded}, True)
            m_single = [p for p in FILES if p.startswith("/single/") and p.endswith("_model.json")]
            m_two = [p for p in FILES if p.startswith("/run2/") and p.endswith("_model.json")]
            if len(m_single) != 1 or len(m_two) != 1:
                return f"model files: {m_single} / {m_two}"
        except Exception as e:  # noqa
            return f"chunked learning raised {type(e).__name__}: {e}"
        a, b = model_state(m_single[0]), model_state(m_two[0])
        if a != b:
            return (f"job {name!r}, second chunk = jobs {[j for j in range(3) if in_second[j]]}: model after save+load+update is {b}, "
                    f"learning all jobs at once gives {a}")
        return None
    finally:
        for k, v in saved.items():
            if v is None:
                if hasattr(pvp, k):
                    delattr(pvp, k)
            else:
                setattr(pvp, k, v)
        if saved_ev[0] is None:
            del ev.open  # type: ignore[attr-defined]
        else:
            ev.open = saved_ev[0]  # type: ignore[attr-defined]
        ev.os = saved_ev[1]  # type: ignore[assignment]


def chunks(s0: bool, s1: bool, s2: bool, name_idx: int) -> bool:
    """
    pre: 0 <= name_idx <= 1 and (s0 or s1 or s2) and not (s0 and s1 and s2)
    post: _
    """
    path_tick()
    return chunked([s0, s1, s2], name_idx) is None


def chunks_twin(s0: bool, s1: bool, s2: bool, name_idx: int) -> bool:
    """
    pre: 0 <= name_idx <= 1 and (s0 or s1 or s2) and not (s0 and s1 and s2)
    post: not _
    """
    return chunked([s0, s1, s2], name_idx) is None


_replay_ops = replay


def replay(args: list[Any], c: dict[str, Any]) -> dict[str, Any]:  # noqa: F811
    if c.get("kind") == "chunks":
        msg = chunked([bool(a) for a in args[:3]], int(args[3]))
        return {"violates": msg is not None, "sig": "chunked-learning-state", "what": msg or "chunked learning state equals single-run state"}
    return _replay_ops(args, c)


try:
    chunked([False, True, True], 1)
except Exception:  # noqa
    pass
