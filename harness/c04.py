"""CrossHair harness for C04 (in part): cache coherence of the gate tree across mutators and the save/load
boundary, and loss-free round trip of the model (events, successor/predecessor sets, counts).

Real code: Event (__init__, update_event_sets, update_in_event_sets, remove_event_type_from_event_sets,
logic_gate_tree getter), events_to_raw_input / raw_input_to_events (the pydantic models the -om / -im files use;
the JSON text goes through json.dumps/loads).  calculate_logic_gates (pm4py) is replaced by a deterministic
marker G(sets): the obligation is that every read of logic_gate_tree equals G(current successor sets).
Symbolic: a history of 3 operations, each drawn from 11 operation codes."""
from __future__ import annotations

import json
from typing import Any, Optional

from vlib.core import cfg as _cfg, path_tick

import tel2puml.events as ev
from tel2puml.events import Event, events_to_raw_input, raw_input_to_events

CFG = _cfg()
LISTS = [["B"], ["C"], ["B", "C"], ["B", "B"]]


def marker(event_sets: Any) -> Any:
    if len(event_sets) == 0:
        return None
    return ("tree", tuple(sorted(tuple(sorted(s.items())) for s in event_sets)))


def ms(xs: list[str]) -> tuple:
    return tuple(sorted((m, xs.count(m)) for m in set(xs)))


def apply_history(ops: list[int]) -> Optional[str]:
    saved = ev.calculate_logic_gates
    ev.calculate_logic_gates = marker  # type: ignore[assignment]
    try:
        e = Event("A")
        events = {"A": e, "Z": Event("Z")}
        events["Z"].update_in_event_sets(["A", "A"])
        out: set = set()
        inn: set = set()
        for k, op in enumerate(ops):
            if op < 4:
                events["A"].update_event_sets(list(LISTS[op]))
                out.add(ms(LISTS[op]))
            elif op < 8:
                events["A"].update_in_event_sets(list(LISTS[op - 4]))
                inn.add(ms(LISTS[op - 4]))
            elif op == 8:
                events["A"].remove_event_type_from_event_sets("B")
                out = {s for s in out if not any(t == "B" for t, _ in s)}
            elif op == 9:
                pass  # read only (below)
            elif op == 10:
                text = json.dumps(events_to_raw_input(events))       # what -om writes
                events = raw_input_to_events(json.loads(text))       # what -im reads
                if sorted(events) != ["A", "Z"]:
                    return f"after save/load the model holds events {sorted(events)}"
            a = events["A"]
            got_out = {tuple(sorted(s.items())) for s in a.event_sets}
            got_in = {tuple(sorted(s.items())) for s in a.in_event_sets}
            if got_out != out or got_in != inn:
                return f"after {ops[:k+1]}: successor sets {sorted(got_out)} / predecessor sets {sorted(got_in)}, expected {sorted(out)} / {sorted(inn)}"
            if {tuple(sorted(s.items())) for s in events["Z"].in_event_sets} != {(("A", 2),)}:
                return f"after {ops[:k+1]}: predecessor set of Z lost its count: {[dict(s) for s in events['Z'].in_event_sets]}"
            if op in (9, 10) or k == len(ops) - 1:
                tree = a.logic_gate_tree
                want = marker(a.event_sets)
                if tree != want:
                    return f"after {ops[:k+1]}: logic_gate_tree is {tree!r} but the successor sets give {want!r}"
        return None
    finally:
        ev.calculate_logic_gates = saved  # type: ignore[assignment]


def check(o1: int, o2: int, o3: int) -> bool:
    """
    pre: 0 <= o1 <= 10 and 0 <= o2 <= 10 and 0 <= o3 <= 10 and o1 == CFG.get("o1", o1)
    post: _
    """
    path_tick()
    return apply_history([o1, o2, o3]) is None


def twin(o1: int, o2: int, o3: int) -> bool:
    """
    pre: 0 <= o1 <= 10 and 0 <= o2 <= 10 and 0 <= o3 <= 10 and o1 == CFG.get("o1", o1)
    post: not _
    """
    return apply_history([o1, o2, o3]) is None


def replay(args: list[Any], c: dict[str, Any]) -> dict[str, Any]:
    msg = apply_history([int(a) for a in args])
    return {"violates": msg is not None, "sig": "model-roundtrip", "what": msg or "history keeps cache and model coherent"}


try:
    apply_history([2, 10, 9])
    apply_history([7, 8, 10])
except Exception:  # noqa
    pass
