"""Entry point: python -m vlib.main <id> [--tier quick|thorough] [--replay file]"""
from __future__ import annotations

import argparse
import importlib
import os
import shutil
import sys

from vlib import core

CHECKS = {
    "C03": "checks.c03", "C04": "checks.c04", "C06": "checks.c06", "C08": "checks.c08",
    "C09": "checks.c09", "C10": "checks.c10", "C11": "checks.c11", "C12": "checks.c12",
    "C13": "checks.c13", "C14": "checks.c14", "C15": "checks.c15", "C16": "checks.c16",
}


def main() -> int:
    ap = argparse.ArgumentParser()
    ap.add_argument("pid")
    ap.add_argument("--tier", default=os.environ.get("VERIF_TIER", "quick"),
                    choices=["quick", "thorough"])
    ap.add_argument("--replay", default=None)
    a = ap.parse_args()
    if a.pid not in CHECKS:
        print(f"no check for {a.pid}")
        return core.EXIT_INCONCLUSIVE
    mod = importlib.import_module(CHECKS[a.pid])
    if a.replay:
        return int(mod.replay_file(a.replay))
    work = os.path.join(core.WORK, a.pid)
    shutil.rmtree(work, ignore_errors=True)
    os.makedirs(work, exist_ok=True)
    try:
        return int(mod.run(a.tier))
    except SystemExit:
        raise
    except Exception as e:  # a crash of the machinery is never a verdict
        import traceback
        traceback.print_exc()
        print(f"INCONCLUSIVE {a.pid}: harness crashed: {e!r}")
        return core.EXIT_INCONCLUSIVE


if __name__ == "__main__":
    sys.exit(main())
