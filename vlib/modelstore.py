"""The model store: the PyAlg side of vlib/sqlsem.py packaged as a stand-in for
``sqlalchemy.orm.Session`` so that the REAL SQLDataHolder code (batching, retry, paging,
grouping, hashing, cleaning, streaming) runs on it - concretely for validation, symbolically
under CrossHair.  Statements are built by SQLAlchemy itself (``session.query`` returns a real
``sqlalchemy.orm.Query`` bound to this session); only their execution is ours.

Modelled: tables as lists of dicts in insertion order, UNIQUE / PRIMARY KEY constraints raising the
real ``sqlalchemy.exc.IntegrityError``, transactions (pending rows dropped by ``rollback``),
autoincrement ``id``, temporary tables.  Not modelled: ORM identity map / expiry, foreign keys
(SQLite does not enforce them by default), server-side cursors.
"""
from __future__ import annotations

from typing import Any, Callable, Iterable, Optional

import sqlalchemy as sa
from sqlalchemy.engine.result import IteratorResult, SimpleResultMetaData
from sqlalchemy.exc import IntegrityError
from sqlalchemy.orm import Query
from sqlalchemy.sql.dml import Delete, Insert, Update
from sqlalchemy.sql.ddl import CreateTable, DropTable
from sqlalchemy.sql.selectable import Select

from vlib import sqlsem as S

from tel2puml.otel_to_pv.data_holders.sql_data_holder.data_model import (Base, JobHash, NODE_ASSOCIATION,
                                                                            NodeModel)

sa.orm.configure_mappers()

NODE_COLS = ["id", "job_name", "job_id", "event_type", "event_id", "start_timestamp", "end_timestamp",
             "application_name", "parent_event_id"]


class Schema:
    def __init__(self, cols: list[str], unique: list[tuple[str, ...]], autoinc: Optional[str] = None,
                 notnull: tuple[str, ...] = ()):
        self.cols, self.unique, self.autoinc, self.notnull = cols, unique, autoinc, notnull


def schema_of(table: sa.Table) -> Schema:
    cols = [c.name for c in table.columns]
    unique: list[tuple[str, ...]] = []
    pk = tuple(c.name for c in table.primary_key.columns)
    if pk:
        unique.append(pk)
    for c in table.columns:
        if c.unique and (c.name,) not in unique:
            unique.append((c.name,))
    for con in table.constraints:
        if isinstance(con, sa.UniqueConstraint):
            u = tuple(c.name for c in con.columns)
            if u and u not in unique:
                unique.append(u)
    autoinc = None
    if len(pk) == 1 and isinstance(table.columns[pk[0]].type, sa.Integer):
        autoinc = pk[0]
    notnull = tuple(c.name for c in table.columns if not c.nullable and c.name != autoinc)
    return Schema(cols, unique, autoinc, notnull)


class Store:
    """Persistent state: survives sessions/holders (a database file)."""

    def __init__(self) -> None:
        self.tables: dict[str, list[dict[str, Any]]] = {}
        self.schemas: dict[str, Schema] = {}
        self.counters: dict[str, int] = {}
        self.temp: set[str] = set()
        self.chooser: Callable[[int], int] = lambda n: 0
        for t in (NodeModel.__table__, NODE_ASSOCIATION, JobHash.__table__):
            self.create(t)

    def create(self, t: sa.Table, temporary: bool = False) -> None:
        if t.name in self.tables:
            raise sa.exc.OperationalError(f"CREATE TABLE {t.name}", {}, Exception(f"table {t.name} already exists"))
        self.tables[t.name] = []
        self.schemas[t.name] = schema_of(t)
        self.counters[t.name] = 0
        if temporary:
            self.temp.add(t.name)

    def drop_temporaries(self) -> None:
        """what closing the connection does"""
        for n in list(self.temp):
            del self.tables[n], self.schemas[n]
        self.temp.clear()

    def snapshot(self) -> dict[str, list[dict[str, Any]]]:
        return {k: [dict(r) for r in v] for k, v in self.tables.items()}

    def restore(self, snap: dict[str, list[dict[str, Any]]]) -> None:
        for k in list(self.tables):
            if k in snap:
                self.tables[k] = [dict(r) for r in snap[k]]

    def db(self) -> S.DB:
        alg = S.PyAlg(self.chooser)
        return S.DB(alg, {n: [(True, {c: (r.get(c), r.get(c) is None) for c in self.schemas[n].cols}) for r in rows]
                          for n, rows in self.tables.items()})

    # ---- row level -------------------------------------------------------
    def insert_row(self, name: str, row: dict[str, Any], stmt_text: str) -> None:
        sch = self.schemas[name]
        r = {c: row.get(c) for c in sch.cols}
        if sch.autoinc and r.get(sch.autoinc) is None:
            self.counters[name] += 1
            r[sch.autoinc] = self.counters[name]
        for c in sch.notnull:
            if r.get(c) is None:
                raise IntegrityError(stmt_text, row, Exception(f"NOT NULL constraint failed: {name}.{c}"))
        for u in sch.unique:
            for old in self.tables[name]:
                if all(old[c] is not None and old[c] == r[c] for c in u):
                    raise IntegrityError(stmt_text, row,
                                         Exception("UNIQUE constraint failed: " + ", ".join(f"{name}.{c}" for c in u)))
        self.tables[name].append(r)


class ModelNode:
    """What ``session.query(NodeModel)`` yields: the stored columns plus ``children`` through the association table."""

    def __init__(self, store: Store, row: dict[str, Any]):
        self._store = store
        for c in NODE_COLS:
            setattr(self, c, row[c])

    @property
    def children(self) -> list["ModelNode"]:
        out = []
        st = self._store
        for a in st.tables["NODE_ASSOCIATION"]:
            if a["parent_id"] == self.event_id:
                for r in st.tables["nodes"]:
                    if r["event_id"] == a["child_id"]:
                        out.append(ModelNode(st, r))
        return out


class ModelJobHash:
    def __init__(self, row: dict[str, Any]):
        self.job_id, self.job_name, self.job_hash = row["job_id"], row["job_name"], row["job_hash"]


class ModelSession:
    def __init__(self, store: Store):
        self.store = store
        self._pending: list[Any] = []
        self._snap: Optional[dict[str, list[dict[str, Any]]]] = None
        self.closed = False
        self.bind = None

    # ---- context / transaction ---------------------------------------------
    def __enter__(self) -> "ModelSession":
        return self

    def __exit__(self, *a: Any) -> None:
        self.close()

    def _begin(self) -> None:
        if self._snap is None:
            self._snap = self.store.snapshot()

    def commit(self) -> None:
        self.flush()
        self._snap = None

    def rollback(self) -> None:
        self._pending = []
        if self._snap is not None:
            self.store.restore(self._snap)
            self._snap = None

    def close(self) -> None:
        # Session.close() releases the transaction: uncommitted work is rolled back, the session stays usable
        self.rollback()

    def flush(self) -> None:
        objs, self._pending = self._pending, []
        for o in objs:
            self._begin()
            if isinstance(o, NodeModel):
                row = {c: getattr(o, c) for c in NODE_COLS}
                self.store.insert_row("nodes", row, "INSERT INTO nodes")
            elif isinstance(o, JobHash):
                self.store.insert_row("job_hashes", {"job_id": o.job_id, "job_name": o.job_name, "job_hash": o.job_hash},
                                      "INSERT INTO job_hashes")
            else:
                raise S.NotSupported(f"add of {type(o).__name__}")

    def add(self, o: Any) -> None:
        self._pending.append(o)

    def add_all(self, objs: Iterable[Any]) -> None:
        for o in objs:
            self._pending.append(o)

    # ---- queries ---------------------------------------------------------------
    def query(self, *entities: Any) -> Query:
        return Query(entities, session=self)  # type: ignore[arg-type]

    def _autoflush(self) -> None:
        self.flush()

    def execute(self, stmt: Any, params: Any = None, *, execution_options: Any = None, **kw: Any) -> Any:
        self.flush()
        st = self.store
        if isinstance(stmt, CreateTable):
            t = stmt.element
            st.create(t, temporary="TEMPORARY" in (t._prefixes or []))
            return _Res([], [])
        if isinstance(stmt, DropTable):
            t = stmt.element
            if t.name not in st.tables:
                raise sa.exc.OperationalError(f"DROP TABLE {t.name}", {}, Exception(f"no such table: {t.name}"))
            del st.tables[t.name], st.schemas[t.name]
            st.temp.discard(t.name)
            return _Res([], [])
        ev = S.Evaluator(st.db())
        if isinstance(stmt, Select):
            rel = ev.select(stmt, {})
            return self._select_result(stmt, rel)
        self._begin()
        if isinstance(stmt, Delete):
            name = stmt.table.name
            keep, n = [], 0
            for r in st.tables[name]:
                env = {(name, c): (r.get(c), r.get(c) is None) for c in st.schemas[name].cols}
                env["__scope__"] = [stmt.table]
                w = True if stmt.whereclause is None else ev.truth(ev.expr(stmt.whereclause, env))
                if w:
                    n += 1
                else:
                    keep.append(r)
            st.tables[name] = keep
            return _Res([], [], rowcount=n)
        if isinstance(stmt, Update):
            name = stmt.table.name
            extra = S._extra_froms(stmt)
            sets = {c.name: v for c, v in stmt._values.items()}
            n = 0
            new_rows = []
            for r in st.tables[name]:
                env0 = {(name, c): (r.get(c), r.get(c) is None) for c in st.schemas[name].cols}
                rel: list[tuple[Any, dict[Any, Any]]] = [(True, {})]
                for f in extra:
                    R = ev.eval_from(f, {"__scope__": [stmt.table]})
                    rel = [(True, {**e1, **e2}) for _g1, e1 in rel for _g2, e2 in R]
                r2 = dict(r)
                for _g, env in rel:
                    full = {**env0, **env, "__scope__": [stmt.table] + extra}
                    ok = True
                    for wc in stmt._where_criteria:
                        if not ev.truth(ev.expr(wc, full)):
                            ok = False
                            break
                    if ok:
                        for c, vexpr in sets.items():
                            v, isnull = ev.expr(vexpr, full)
                            r2[c] = None if isnull else v
                        n += 1
                        break
                new_rows.append(r2)
            st.tables[name] = new_rows
            return _Res([], [], rowcount=n)
        if isinstance(stmt, Insert):
            name = stmt.table.name
            if stmt.select is not None:
                rel = ev.select(stmt.select if isinstance(stmt.select, Select) else S._unwrap_select(stmt.select), {})
                names = [c.name if hasattr(c, "name") else c for c in stmt._select_names] if hasattr(stmt, "_select_names") else None
                cols = [c for c in stmt.select_names] if hasattr(stmt, "select_names") else None
                target = names or cols or [c.name for c in stmt.table.columns]
                for _g, row in rel:
                    vals = [None if isnull else v for v, isnull in row.values()]
                    st.insert_row(name, dict(zip(target, vals)), f"INSERT INTO {name} SELECT")
                return _Res([], [], rowcount=len(rel))
            rows = params if isinstance(params, (list, tuple)) else ([params] if params else [])
            if not rows and stmt._values:
                rows = [{c.name: v.value for c, v in stmt._values.items()}]
            for p in rows:
                st.insert_row(name, dict(p), f"INSERT INTO {name}")
            return _Res([], [], rowcount=len(rows))
        raise S.NotSupported(f"statement {type(stmt).__name__}")

    def _select_result(self, stmt: Select, rel: list[tuple[Any, dict[str, tuple[Any, Any]]]]) -> Any:
        # (stmt.column_descriptions would compile ORM state; under CrossHair that trips over patched sets)
        entity = None
        raw = list(stmt._raw_columns)
        if len(raw) == 1 and isinstance(raw[0], sa.Table):
            pe = raw[0]._annotations.get("parententity")
            entity = getattr(pe, "class_", None)
        if entity is NodeModel:
            objs = []
            for _g, row in rel:
                d = {c: (None if row[c][1] else row[c][0]) for c in NODE_COLS}
                objs.append((ModelNode(self.store, d),))
            return _Res(["NodeModel"], objs, single=True)
        if entity is JobHash:
            objs = [(ModelJobHash({c: (None if row[c][1] else row[c][0]) for c in ("job_id", "job_name", "job_hash")}),)
                    for _g, row in rel]
            return _Res(["JobHash"], objs, single=True)
        keys = [c.name for c in stmt.selected_columns]
        rows = [tuple(None if isnull else v for v, isnull in row.values()) for _g, row in rel]
        return _Res(keys, rows)

    def scalar(self, stmt: Any, *a: Any, **k: Any) -> Any:
        return self.execute(stmt).scalar()


def _Res(keys: list[str], rows: list[Any], single: bool = False, rowcount: int = 0) -> Any:
    res = IteratorResult(SimpleResultMetaData(keys or ["_"]), iter(rows))
    res._attributes = res._attributes.union({"is_single_entity": single, "filtered": False})
    res.rowcount = rowcount  # type: ignore[attr-defined]
    return res
