"""sa2smt: a bounded relational semantics for the SQLAlchemy statement objects that the
real SQLDataHolder methods build.  One evaluator, two value algebras:

* ``Z3Alg``  - tables are N row slots with presence bits and symbolic columns; a statement
  becomes a quantifier-free formula (used by C11, C09-Q2, C12-Q1).
* ``PyAlg``  - tables are Python lists of dicts: the *model store* that CrossHair harnesses
  plug in as ``SQLDataHolder.session`` (vlib/modelstore.py).

A relation is a list of ``(guard, env)``; ``env`` maps ``(source, column)`` to ``(value, isnull)``.
SQL three-valued logic is kept: a boolean is ``(truth, isnull)``.

Subquery auto-correlation: a FROM element of an inner SELECT that is the same object as a FROM
element of an enclosing SELECT is correlated (dropped from the inner FROM list) - SQLAlchemy's
rule; the scope is reset at derived tables.  The evaluator is validated on every run against real
SQLite (vlib/sqlvalidate.py).
"""
from __future__ import annotations

from typing import Any, Callable, Optional

import z3
from sqlalchemy.sql import operators as ops
from sqlalchemy.sql.dml import Delete, Insert, Update
from sqlalchemy.sql.elements import (BinaryExpression, BindParameter, BooleanClauseList, ColumnClause,
                                     FunctionFilter, Grouping, Label, Null, Tuple, UnaryExpression, True_, False_)
from sqlalchemy.sql.functions import FunctionElement
from sqlalchemy.sql.schema import Column, Table
from sqlalchemy.sql.selectable import Alias, Exists, Join, ScalarSelect, Select, Subquery, TableClause


class NotSupported(Exception):
    pass


class UnboundColumn(NotSupported):
    pass


from vlib.core import untraced  # noqa: E402,F401


STRING_CODES: dict[str, int] = {}


# --------------------------------------------------------------------------
# algebras
# --------------------------------------------------------------------------
class Z3Alg:
    symbolic = True

    def __init__(self) -> None:
        self.side: list[Any] = []  # side constraints (choice variables)
        self.n = 0

    def fresh_bool(self, p: str = "c") -> Any:
        self.n += 1
        return z3.Bool(f"{p}!{self.n}")

    def fresh_int(self, p: str = "v") -> Any:
        self.n += 1
        return z3.Int(f"{p}!{self.n}")

    true = staticmethod(lambda: z3.BoolVal(True))
    false = staticmethod(lambda: z3.BoolVal(False))

    @staticmethod
    def and_(xs: list[Any]) -> Any:
        return z3.And(xs) if xs else z3.BoolVal(True)

    @staticmethod
    def or_(xs: list[Any]) -> Any:
        return z3.Or(xs) if xs else z3.BoolVal(False)

    not_ = staticmethod(z3.Not)

    def const(self, v: Any) -> Any:
        if isinstance(v, z3.ExprRef):
            return v
        if hasattr(v, "expr") and isinstance(getattr(v, "expr"), z3.ExprRef):
            return v.expr  # vlib.symexec.SymInt
        if hasattr(v, "real_term"):
            # vlib.symexec.SymFloat: a float-valued bind parameter (SQLite compares INTEGER with REAL exactly)
            self.n += 1
            r, c = v.real_term(z3.Real(f"fbind!{self.n}"))
            self.side.append(c)
            return r
        if isinstance(v, float):
            return z3.RealVal(v)
        if isinstance(v, bool):
            return z3.BoolVal(v)
        if isinstance(v, int):
            return z3.IntVal(v)
        if isinstance(v, str):
            # strings are only compared for equality / order of codes: code them as ints (stable per process)
            if v not in STRING_CODES:
                STRING_CODES[v] = 1000 + len(STRING_CODES)
            return z3.IntVal(STRING_CODES[v])
        raise NotSupported(f"constant {v!r} in z3 mode")

    @staticmethod
    def cmp(op: Any, a: Any, b: Any) -> Any:
        return {ops.eq: lambda: a == b, ops.ne: lambda: a != b, ops.lt: lambda: a < b, ops.le: lambda: a <= b,
                ops.gt: lambda: a > b, ops.ge: lambda: a >= b}[op]()

    @staticmethod
    def count(gs: list[Any]) -> Any:
        return z3.Sum([z3.If(g, 1, 0) for g in gs]) if gs else z3.IntVal(0)

    @staticmethod
    def ite(c: Any, a: Any, b: Any) -> Any:
        return z3.If(c, a, b)

    @staticmethod
    def maybe(g: Any) -> bool:
        return not z3.is_false(g)


class PyAlg:
    symbolic = False

    def __init__(self, chooser: Optional[Callable[[int], int]] = None) -> None:
        self.chooser = chooser or (lambda n: 0)

    true = staticmethod(lambda: True)
    false = staticmethod(lambda: False)

    @staticmethod
    def and_(xs: list[Any]) -> Any:
        for x in xs:
            if not x:
                return False
        return True

    @staticmethod
    def or_(xs: list[Any]) -> Any:
        for x in xs:
            if x:
                return True
        return False

    @staticmethod
    def not_(x: Any) -> Any:
        return not x

    @staticmethod
    def const(v: Any) -> Any:
        return v

    @staticmethod
    def cmp(op: Any, a: Any, b: Any) -> Any:
        if a is None or b is None:
            return False
        return {ops.eq: lambda: a == b, ops.ne: lambda: a != b, ops.lt: lambda: a < b, ops.le: lambda: a <= b,
                ops.gt: lambda: a > b, ops.ge: lambda: a >= b}[op]()

    @staticmethod
    def count(gs: list[Any]) -> Any:
        n = 0
        for g in gs:
            if g:
                n += 1
        return n

    @staticmethod
    def ite(c: Any, a: Any, b: Any) -> Any:
        return a if c else b

    @staticmethod
    def maybe(g: Any) -> bool:
        return bool(g)


# --------------------------------------------------------------------------
# database views
# --------------------------------------------------------------------------
class DB:
    """name -> list of (guard, {col: (val, isnull)}) rows (in storage order)"""

    def __init__(self, alg: Any, tables: dict[str, list[tuple[Any, dict[str, tuple[Any, Any]]]]]):
        self.alg = alg
        self.tables = tables


def _unwrap_select(e: Any) -> Select:
    while isinstance(e, (Grouping, ScalarSelect, Exists)):
        e = e.element
    if isinstance(e, (Subquery, Alias)):
        e = e.element
    if not isinstance(e, Select):
        raise NotSupported(f"expected SELECT, got {type(e).__name__}")
    return e


def _key_of(c: Any) -> tuple[Any, str]:
    t = c.table
    if isinstance(t, (Subquery, Alias)):
        return (id(t), c.name)
    if isinstance(t, (Table, TableClause)):
        return (t.name, c.name)
    raise NotSupported(f"column of {type(t).__name__}")


class Evaluator:
    def __init__(self, db: DB):
        self.db = db
        self.alg = db.alg
        # per-evaluator caches (one evaluator = one statement execution on one database state)
        self._froms: dict[int, Any] = {}
        self._cols: dict[int, Any] = {}
        self._uncorrelated: dict[tuple[int, bool], Any] = {}   # results of subqueries that do not read the outer row
        self._correlated: set[int] = set()
        self._keep: list[Any] = []

    def subselect(self, sel: Select, env: dict[Any, Any], proj: bool = True) -> Any:
        """Evaluate a subquery; one that never reads the enclosing row is evaluated once and memoised."""
        k = (id(sel), proj)
        if k in self._uncorrelated:
            return self._uncorrelated[k]
        if id(sel) not in self._correlated:
            try:
                res = self.select(sel, {"__scope__": env.get("__scope__", [])}, proj=proj)
                self._keep.append(sel)
                self._uncorrelated[k] = res
                return res
            except UnboundColumn:
                self._correlated.add(id(sel))
                self._keep.append(sel)
        return self.select(sel, env, proj=proj)

    # -- three-valued helpers ------------------------------------------------
    def truth(self, b: tuple[Any, Any]) -> Any:
        return self.alg.and_([b[0], self.alg.not_(b[1])])

    def falsity(self, b: tuple[Any, Any]) -> Any:
        return self.alg.and_([self.alg.not_(b[0]), self.alg.not_(b[1])])

    # -- FROM ----------------------------------------------------------------
    def eval_from(self, f: Any, outer: dict[Any, Any]) -> list[tuple[Any, dict[Any, Any]]]:
        A = self.alg
        if isinstance(f, Join):
            if f.isouter or f.full:
                raise NotSupported("outer join")
            L = self.eval_from(f.left, outer)
            R = self.eval_from(f.right, outer)
            out = []
            for g1, e1 in L:
                for g2, e2 in R:
                    env = {**e1, **e2}
                    g = A.and_([g1, g2, self.truth(self.expr(f.onclause, {**outer, **env}))])
                    if A.maybe(g):
                        out.append((g, env))
            return out
        if isinstance(f, (Subquery, Alias)):
            inner = f.element
            while isinstance(inner, (Subquery, Alias)):
                inner = inner.element
            if isinstance(inner, Select):
                rel = self.select(inner, {k: v for k, v in outer.items() if k != "__scope__"})
                names = untraced(lambda: [c.name for c in f.c])  # exported column names, positionally aligned with the inner SELECT
                return [(g, {(id(f), n): v for n, v in zip(names, row.values())}) for g, row in rel]
        if isinstance(f, (Table, TableClause)):
            if f.name not in self.db.tables:
                raise NotSupported(f"unknown table {f.name}")
            return [(g, {(f.name, c): v for c, v in row.items()}) for g, row in self.db.tables[f.name]]
        raise NotSupported(f"FROM element {type(f).__name__}")

    # -- expressions -----------------------------------------------------------
    def expr(self, e: Any, env: dict[Any, Any]) -> tuple[Any, Any]:
        A = self.alg
        F, T = A.false(), A.true()
        if isinstance(e, (Grouping, Label)):
            return self.expr(e.element, env)
        if isinstance(e, (Column, ColumnClause)):
            k = _key_of(e)
            if k not in env:
                raise UnboundColumn(f"unbound column {e} ({k})")
            return env[k]
        if isinstance(e, BindParameter):
            v = e.value
            if e.expanding and isinstance(v, (list, tuple, set, frozenset)):
                raise NotSupported("expanding bind outside IN")
            if v is None:
                return (A.const(0), T)
            return (A.const(v), F)
        if isinstance(e, Null):
            return (A.const(0), T)
        if isinstance(e, True_):
            return (T, F)
        if isinstance(e, False_):
            return (F, F)
        if isinstance(e, BooleanClauseList):
            if len(e.clauses) == 0:
                # SQLAlchemy's compiler omits an empty and_()/or_() altogether (no criterion at all)
                return (T, F)
            parts = [self.expr(c, env) for c in e.clauses]
            if e.operator is ops.and_:
                t = A.and_([self.truth(p) for p in parts])
                f = A.or_([self.falsity(p) for p in parts])
            elif e.operator is ops.or_:
                t = A.or_([self.truth(p) for p in parts])
                f = A.and_([self.falsity(p) for p in parts])
            else:
                raise NotSupported(f"boolean operator {e.operator}")
            return (t, A.and_([A.not_(t), A.not_(f)]))
        if isinstance(e, Exists):
            rel = self.subselect(_unwrap_select(e), env, proj=False)
            return (A.or_([g for g, _ in rel]), F)
        if isinstance(e, UnaryExpression):
            if e.operator is ops.inv:
                b = self.expr(e.element, env)
                return (A.and_([A.not_(b[0]), A.not_(b[1])]), b[1])
            if e.operator is ops.exists:
                rel = self.subselect(_unwrap_select(e.element), env, proj=False)
                return (A.or_([g for g, _ in rel]), F)
            raise NotSupported(f"unary operator {e.operator}")
        if isinstance(e, BinaryExpression):
            op = e.operator
            if op in (ops.in_op, ops.not_in_op) and isinstance(e.left, Tuple):
                # row-value IN (SELECT a, b ...): component-wise equality against every member row
                ls = [self.expr(c, env) for c in e.left.clauses]
                rel = self.subselect(_unwrap_select(e.right), env)
                hits, unknowns = [], []
                for g, r in rel:
                    vs = list(r.values())
                    if len(vs) != len(ls):
                        raise NotSupported("row value arity")
                    eqs = [A.and_([A.not_(a[1]), A.not_(b[1]), A.cmp(ops.eq, a[0], b[0])]) for a, b in zip(ls, vs)]
                    nes = [A.and_([A.not_(a[1]), A.not_(b[1]), A.cmp(ops.ne, a[0], b[0])]) for a, b in zip(ls, vs)]
                    hits.append(A.and_([g] + eqs))
                    unknowns.append(A.and_([g, A.not_(A.or_(nes)), A.not_(A.and_(eqs))]))
                t = A.or_(hits)
                isnull = A.and_([A.not_(t), A.or_(unknowns)])
                if op is ops.in_op:
                    return (t, isnull)
                return (A.and_([A.not_(t), A.not_(isnull)]), isnull)
            if op in (ops.in_op, ops.not_in_op):
                l = self.expr(e.left, env)
                right = e.right
                while isinstance(right, Grouping):
                    right = right.element
                if isinstance(right, BindParameter):
                    vals = list(right.value)
                    members = [(T, (A.const(v), F)) for v in vals]
                else:
                    rel = self.subselect(_unwrap_select(right), env)
                    members = [(g, list(r.values())[0]) for g, r in rel]
                hits = [A.and_([g, A.not_(v[1]), A.cmp(ops.eq, v[0], l[0])]) for g, v in members]
                t = A.and_([A.not_(l[1]), A.or_(hits)])
                anynull = A.or_([A.and_([g, v[1]]) for g, v in members])
                nonempty = A.or_([g for g, _ in members])
                isnull = A.and_([A.not_(t), A.or_([A.and_([l[1], nonempty]), anynull])])
                if op is ops.in_op:
                    return (t, isnull)
                return (A.and_([A.not_(t), A.not_(isnull)]), isnull)
            if op in (ops.is_, ops.is_not):
                l = self.expr(e.left, env)
                if not isinstance(e.right, Null):
                    raise NotSupported("IS with non-NULL operand")
                return (l[1], F) if op is ops.is_ else (A.not_(l[1]), F)
            if op in (ops.eq, ops.ne, ops.lt, ops.le, ops.gt, ops.ge):
                l = self.expr(e.left, env)
                r = self.expr(e.right, env)
                isnull = A.or_([l[1], r[1]])
                return (A.and_([A.not_(isnull), A.cmp(op, l[0], r[0])]), isnull)
            raise NotSupported(f"binary operator {op}")
        raise NotSupported(f"expression {type(e).__name__}")

    # -- SELECT ----------------------------------------------------------------
    def select(self, sel: Select, outer: dict[Any, Any], proj: bool = True,
               ordered: bool = False) -> list[tuple[Any, dict[str, tuple[Any, Any]]]]:
        A = self.alg
        if id(sel) not in self._froms:
            self._froms[id(sel)] = untraced(lambda: list(sel.get_final_froms()))
            self._cols[id(sel)] = untraced(lambda: list(sel.selected_columns))
            self._keep.append(sel)
        froms = list(self._froms[id(sel)])
        scope = outer.get("__scope__", [])

        def leaves(f: Any) -> list[Any]:
            return leaves(f.left) + leaves(f.right) if isinstance(f, Join) else [f]
        keep = [f for f in froms if isinstance(f, Join) or not any(f is g for g in scope)]
        if keep and len(keep) < len(froms):
            froms = keep
        outer = {**outer, "__scope__": scope + [l for f in froms for l in leaves(f)]}
        rel: list[tuple[Any, dict[Any, Any]]] = [(A.true(), {})]
        for f in froms:
            R = self.eval_from(f, outer)
            rel = [(A.and_([g1, g2]), {**e1, **e2}) for g1, e1 in rel for g2, e2 in R]
        if sel.whereclause is not None:
            rel2 = []
            for g, env in rel:
                g2 = A.and_([g, self.truth(self.expr(sel.whereclause, {**outer, **env}))])
                if A.maybe(g2):
                    rel2.append((g2, env))
            rel = rel2
        cols = self._cols[id(sel)]

        def is_count(c: Any) -> bool:
            c2 = c
            while isinstance(c2, (Label, Grouping)):
                c2 = c2.element
            return isinstance(c2, FunctionElement) and c2.name == "count"

        if cols and all(is_count(c) for c in cols) and not sel._group_by_clauses:
            n = A.count([g for g, _ in rel])
            return [(A.true(), {c.name: (n, A.false()) for c in cols})]

        def project(env: dict[Any, Any]) -> dict[str, tuple[Any, Any]]:
            if not proj:
                return {}
            out_row: dict[str, tuple[Any, Any]] = {}
            for i, c in enumerate(cols):
                out_row[c.name if c.name not in out_row else f"{c.name}#{i}"] = self.expr(c, {**outer, **env})
            return out_row

        if sel._group_by_clauses:
            gb = list(sel._group_by_clauses)
            keys = [[self.expr(c, {**outer, **env}) for c in gb] for _, env in rel]
            gb_names = {_key_of(c) for c in gb if isinstance(c, (Column, ColumnClause))}
            bare = proj and any(not (isinstance(c, (Column, ColumnClause)) and _key_of(c) in gb_names) for c in cols)

            def same(i: int, j: int) -> Any:
                return A.and_([A.or_([A.and_([a[1], b[1]]),
                                      A.and_([A.not_(a[1]), A.not_(b[1]), A.cmp(ops.eq, a[0], b[0])])])
                               for a, b in zip(keys[i], keys[j])])

            def having_of(i: int, members: list[tuple[Any, dict[Any, Any]]]) -> Any:
                if not sel._having_criteria:
                    return A.true()
                return A.and_([self.truth(self.having(h, members, {**outer, **rel[i][1]}))
                               for h in sel._having_criteria])

            if A.symbolic:
                out = []
                reps: list[Any] = []
                for i, (g, env) in enumerate(rel):
                    members = [(A.and_([g2, same(i, j)]), env2) for j, (g2, env2) in enumerate(rel)]
                    gi = A.and_([g, having_of(i, members)])
                    if not A.maybe(gi):
                        continue
                    if bare:
                        # SQLite: a bare column takes its value from an arbitrary row of the group
                        rep = A.fresh_bool("rep")
                        reps.append((gi, rep, [m for m, _ in members], i))
                        out.append((A.and_([gi, rep]), project(env)))
                    else:
                        out.append((gi, project(env)))  # duplicates are harmless for IN / EXISTS / join-on-key
                for (gi, rep, mem, i) in reps:  # exactly one representative per non-empty group
                    others = [z3.And(rj, mem[j]) for (_gj, rj, _m, j) in reps if j != i]
                    A.side.append(z3.Implies(rep, gi))
                    A.side.append(z3.Implies(gi, z3.Or([rep] + others)))
                    if others:
                        A.side.append(z3.Implies(rep, z3.Not(z3.Or(others))))
                return out
            groups: list[list[int]] = []  # concrete: groups in order of their first member
            for i in range(len(rel)):
                for grp in groups:
                    if same(grp[0], i):
                        grp.append(i)
                        break
                else:
                    groups.append([i])
            res: list[tuple[Any, dict[str, tuple[Any, Any]]]] = []
            for grp in groups:
                members = [rel[j] for j in grp]
                if not having_of(grp[0], members):
                    continue
                pick = grp[self.alg.chooser(len(grp)) % len(grp)] if bare else grp[0]
                res.append((True, project(rel[pick][1])))
            return res
        out2 = [(g, project(env)) for g, env in rel]
        if sel._distinct and not A.symbolic:
            seen: list[Any] = []
            ded = []
            for g, row in out2:
                key = tuple((v if not n else None) for v, n in row.values())
                if key not in seen:
                    seen.append(key)
                    ded.append((g, row))
            out2 = ded
        if not A.symbolic:
            if sel._order_by_clauses:
                ob = list(sel._order_by_clauses)

                def sort_key(item: tuple[Any, dict[Any, Any]]) -> tuple:
                    env = item[1]
                    ks = []
                    for c in ob:
                        v, n = self.expr(c, {**outer, **env})
                        ks.append((0, 0) if n else (1, v))
                    return tuple(ks)
                pairs = sorted(zip(rel, out2), key=lambda p: sort_key(p[0]))
                out2 = [p[1] for p in pairs]
            lim, off = sel._limit_clause, sel._offset_clause
            if off is not None:
                out2 = out2[int(off.value):]
            if lim is not None:
                out2 = out2[: int(lim.value)]
        else:
            if sel._limit_clause is not None or sel._offset_clause is not None:
                raise NotSupported("LIMIT/OFFSET in z3 mode")
        return out2

    def having(self, h: Any, members: list[tuple[Any, dict[Any, Any]]], env: dict[Any, Any]) -> tuple[Any, Any]:
        A = self.alg
        if isinstance(h, Grouping):
            return self.having(h.element, members, env)
        if isinstance(h, BinaryExpression) and isinstance(h.left, FunctionFilter):
            ff = h.left
            if ff.func.name != "count":
                raise NotSupported("aggregate other than count")
            cnt = A.count([A.and_([g, self.truth(self.expr(ff.criterion, {**env, **e}))]) for g, e in members])
            r = self.expr(h.right, env)
            return (A.cmp(h.operator, cnt, r[0]), A.false())
        raise NotSupported(f"HAVING {type(h).__name__}")


# --------------------------------------------------------------------------
# symbolic tables and DML transitions (z3 algebra)
# --------------------------------------------------------------------------
class SymTable:
    def __init__(self, name: str, cols: list[str], n: int, tag: str, nullable: tuple[str, ...] = ()):
        self.name, self.cols, self.n, self.nullable = name, cols, n, nullable
        self.present = [z3.Bool(f"{tag}_{name}_{i}_p") for i in range(n)]
        self.val = [{c: z3.Int(f"{tag}_{name}_{i}_{c}") for c in cols} for i in range(n)]
        self.null = [{c: (z3.Bool(f"{tag}_{name}_{i}_{c}_null") if c in nullable else z3.BoolVal(False))
                      for c in cols} for i in range(n)]

    def rows(self) -> list[tuple[Any, dict[str, tuple[Any, Any]]]]:
        return [(self.present[i], {c: (self.val[i][c], self.null[i][c]) for c in self.cols}) for i in range(self.n)]

    def frame(self, other: "SymTable", i: int, except_cols: tuple[str, ...] = ()) -> list[Any]:
        out = []
        for c in self.cols:
            if c in except_cols:
                continue
            out.append(self.val[i][c] == other.val[i][c])
            if c in self.nullable:
                out.append(self.null[i][c] == other.null[i][c])
        return out


def z3_db(tables: list[SymTable], alg: Optional[Z3Alg] = None) -> DB:
    return DB(alg or Z3Alg(), {t.name: t.rows() for t in tables})


def apply_delete(db: DB, tabs: dict[str, SymTable], stmt: Delete, tag: str) -> tuple[dict[str, SymTable], list[Any]]:
    """DELETE FROM t WHERE w : returns the new table set and the transition constraints."""
    t = tabs[stmt.table.name]
    new = SymTable(t.name, t.cols, t.n, tag, t.nullable)
    ev = Evaluator(db)
    cons: list[Any] = []
    for i, (p, row) in enumerate(t.rows()):
        env = {(t.name, c): v for c, v in row.items()}
        env["__scope__"] = [stmt.table]
        w = ev.truth(ev.expr(stmt.whereclause, env)) if stmt.whereclause is not None else z3.BoolVal(True)
        cons.append(new.present[i] == z3.And(p, z3.Not(w)))
        cons += new.frame(t, i)
    out = dict(tabs)
    out[t.name] = new
    return out, cons


def apply_update_from(db: DB, tabs: dict[str, SymTable], stmt: Update, tag: str) -> tuple[dict[str, SymTable], list[Any]]:
    """UPDATE t SET col = expr FROM <other froms> WHERE w.  If several FROM rows match a target row the new value is
    that of SOME matching row (SQLite: arbitrary)."""
    t = tabs[stmt.table.name]
    new = SymTable(t.name, t.cols, t.n, tag, t.nullable)
    ev = Evaluator(db)
    sets = {c.name: v for c, v in stmt._values.items()}
    extra = [f for f in stmt._where_criteria and _extra_froms(stmt)]
    cons: list[Any] = []
    for i, (p, row) in enumerate(t.rows()):
        env0 = {(t.name, c): v for c, v in row.items()}
        rel: list[tuple[Any, dict[Any, Any]]] = [(z3.BoolVal(True), {})]
        for f in extra:
            R = ev.eval_from(f, {"__scope__": [stmt.table]})
            rel = [(z3.And(g1, g2), {**e1, **e2}) for g1, e1 in rel for g2, e2 in R]
        matches = []
        for g, env in rel:
            full = {**env0, **env, "__scope__": [stmt.table] + extra}
            w = z3.And([ev.truth(ev.expr(wc, full)) for wc in stmt._where_criteria]) if stmt._where_criteria else z3.BoolVal(True)
            matches.append((z3.And(p, g, w), full))
        anym = z3.Or([m for m, _ in matches]) if matches else z3.BoolVal(False)
        cons.append(new.present[i] == p)
        cons += new.frame(t, i, except_cols=tuple(sets))
        for c, vexpr in sets.items():
            alts = []
            for m, full in matches:
                v = ev.expr(vexpr, full)
                alts.append(z3.And(m, new.val[i][c] == v[0], new.null[i][c] == v[1]))
            cons.append(z3.If(anym, z3.Or(alts) if alts else z3.BoolVal(False),
                              z3.And(new.val[i][c] == t.val[i][c], new.null[i][c] == t.null[i][c])))
    out = dict(tabs)
    out[t.name] = new
    return out, cons


def _extra_froms(stmt: Update) -> list[Any]:
    """FROM elements referenced by an UPDATE's WHERE / SET other than the target table."""
    from sqlalchemy.sql import visitors
    found: list[Any] = []
    exprs = list(stmt._where_criteria) + list(stmt._values.values())
    for e in exprs:
        for el in visitors.iterate(e):
            if isinstance(el, (Column, ColumnClause)) and el.table is not None and el.table is not stmt.table:
                t = el.table
                if isinstance(t, (Table, TableClause)) and t.name == stmt.table.name:
                    continue
                if not any(t is f for f in found):
                    found.append(t)
    return found
