"""Shared runner pieces: evidence, known findings, exit codes, CrossHair orchestration.

Exit codes of every check:
  0  property held on everything explored (within the stated bounds), or only
     listed known findings were reproduced
  1  VIOLATION (a solver counterexample that was replayed on the real code)
  2  inconclusive / harness error (never a verdict)
"""
from __future__ import annotations

import ast
import hashlib
import json
import os
import re
import subprocess
import sys
import time
from concurrent.futures import ThreadPoolExecutor
from dataclasses import dataclass, field
from typing import Any, Callable, Optional

VERIF = os.path.dirname(os.path.dirname(os.path.abspath(__file__)))
REPO = os.environ.get("VERIF_REPO", "/repo")
PY = os.path.join(VERIF, ".venv", "bin", "python")
WORK = os.path.join(VERIF, ".work")
NCPU = int(os.environ.get("VERIF_JOBS", str(os.cpu_count() or 4)))

EXIT_OK, EXIT_VIOLATION, EXIT_INCONCLUSIVE = 0, 1, 2


def src_hash(path: str) -> str:
    with open(path, "rb") as f:
        return hashlib.sha256(f.read()).hexdigest()[:16]


def repo_file(rel: str) -> str:
    return os.path.join(REPO, rel)


def child_env(extra: Optional[dict[str, str]] = None) -> dict[str, str]:
    env = dict(os.environ)
    env["PYTHONPATH"] = os.pathsep.join(
        [REPO, os.path.join(VERIF, "stubs"), VERIF]
    )
    env["PYTHONHASHSEED"] = env.get("PYTHONHASHSEED", "0")
    env["PYTHONDONTWRITEBYTECODE"] = "1"
    env["XTUML_OTEL2PUML_VERIF"] = "1"
    if extra:
        env.update(extra)
    return env


# --------------------------------------------------------------------------
# known findings
# --------------------------------------------------------------------------
@dataclass
class Known:
    kind: str  # "known" | "fixed"
    prop: str
    sig: str
    text: str


def load_known() -> list[Known]:
    out: list[Known] = []
    path = os.path.join(VERIF, "known_findings.txt")
    if not os.path.exists(path):
        return out
    for line in open(path):
        line = line.strip()
        if not line or line.startswith("#"):
            continue
        m = re.match(r"(known|fixed):\s+property=(\S+)\s+(?:sig=(\S+)\s+)?(.*)", line)
        if m:
            out.append(Known(m.group(1), m.group(2), m.group(3) or "", m.group(4)))
    return out


# --------------------------------------------------------------------------
# the check object
# --------------------------------------------------------------------------
@dataclass
class Obligation:
    name: str
    engine: str
    verdict: str  # held | violated | known | inconclusive | twin-ok | twin-bad
    seconds: float
    detail: dict[str, Any] = field(default_factory=dict)


class Check:
    def __init__(self, pid: str, tier: str, level: str):
        self.pid = pid
        self.tier = tier
        self.level = level
        self.seed = int(os.environ.get("VERIF_SEED", "0") or 0)
        self.t0 = time.time()
        self.obligations: list[Obligation] = []
        self.encoded: list[dict[str, str]] = []
        self.bounds: dict[str, Any] = {}
        self.outside: list[str] = []
        self.assumptions: list[str] = []
        self.samples: list[Any] = []
        self.violations: list[dict[str, Any]] = []
        self.known_hits: list[dict[str, Any]] = []
        self.inconclusive: list[str] = []
        self.extra: dict[str, Any] = {}
        self.states = 0
        self.transitions = 0
        self.replayed = 0
        self.known = [k for k in load_known() if k.prop == pid and k.kind == "known"]
        self.explanation = ""

    # -- bookkeeping -------------------------------------------------------
    def encode(self, rel: str, what: str) -> None:
        p = repo_file(rel)
        self.encoded.append(
            {"file": rel, "functions": what,
             "sha256_16": src_hash(p) if os.path.exists(p) else "missing"}
        )

    def held(self, name: str, engine: str, seconds: float, **detail: Any) -> None:
        self.obligations.append(Obligation(name, engine, "held", seconds, detail))

    def twin(self, name: str, engine: str, ok: bool, seconds: float, **detail: Any) -> None:
        self.obligations.append(
            Obligation(name, engine, "twin-ok" if ok else "twin-bad", seconds, detail)
        )
        if not ok:
            self.inconclusive.append(f"vacuity twin failed: {name}")

    def unknown(self, name: str, engine: str, seconds: float, why: str, **detail: Any) -> None:
        detail["why"] = why
        self.obligations.append(Obligation(name, engine, "inconclusive", seconds, detail))
        self.inconclusive.append(f"{name}: {why}")

    def counterexample(
        self, name: str, engine: str, seconds: float, *, sig: str, what: str,
        replay: dict[str, Any], reproduced: bool,
    ) -> None:
        """Record a solver counterexample AFTER it has been replayed on the real code."""
        self.replayed += 1
        if not reproduced:
            self.obligations.append(
                Obligation(name, engine, "inconclusive", seconds,
                           {"why": "counterexample did not reproduce on the real code",
                            "what": what, "replay": replay})
            )
            self.inconclusive.append(
                f"HARNESS-ERROR {name}: counterexample did not reproduce: {what}"
            )
            return
        for k in self.known:
            if k.sig and k.sig == sig:
                if not any(h["sig"] == sig for h in self.known_hits):
                    print(f"KNOWN-FINDING: property={self.pid} {k.text} [sig={sig}; witness: {what}]")
                self.known_hits.append({"sig": sig, "what": what, "obligation": name})
                self.obligations.append(
                    Obligation(name, engine, "known", seconds, {"sig": sig, "what": what})
                )
                return
        os.makedirs(os.path.join(VERIF, "replays", self.pid), exist_ok=True)
        rid = hashlib.sha256(json.dumps(replay, sort_keys=True, default=str).encode()).hexdigest()[:12]
        path = os.path.join(VERIF, "replays", self.pid, f"{rid}.json")
        with open(path, "w") as f:
            json.dump({"property": self.pid, "obligation": name, "sig": sig,
                       "what": what, "replay": replay}, f, indent=1, default=str)
        self.violations.append({"obligation": name, "sig": sig, "what": what, "replay": path})
        self.obligations.append(
            Obligation(name, engine, "violated", seconds, {"sig": sig, "what": what, "replay": path})
        )
        print(f"VIOLATION property={self.pid} replay={path}")
        print(f"  {name}: {what}")

    # -- end ---------------------------------------------------------------
    def finish(self) -> int:
        wall = round(time.time() - self.t0, 2)
        n_held = sum(1 for o in self.obligations if o.verdict == "held")
        n_twin = sum(1 for o in self.obligations if o.verdict == "twin-ok")
        verdicts: dict[str, int] = {}
        for o in self.obligations:
            verdicts[o.verdict] = verdicts.get(o.verdict, 0) + 1
        solver_s = round(sum(o.seconds for o in self.obligations), 2)
        cov: dict[str, Any] = {
            "states": max(self.states, 0),
            "transitions": max(self.transitions, 0),
            "traces_validated_against_impl": self.replayed + int(self.extra.get("validation_runs", 0)),
            "samples": self.samples[:12] or ["(no sample recorded)"],
            "evaluations": len(self.obligations),
            "distinct_nontrivial": n_held + verdicts.get("violated", 0) + verdicts.get("known", 0),
            "rule": "one evaluation = one solver obligation (a CrossHair condition explored over all "
                    "paths, or one z3 query); non-trivial = a property obligation (vacuity twins and "
                    "validation runs are not counted)",
            "obligations": len(self.obligations),
            "discharged": n_held + n_twin,
            "explanation": self.explanation,
            "exhaustive": False,
            "verdict_counts": verdicts,
            "solver_seconds_total": solver_s,
            "functions_encoded": self.encoded,
            "bounds": self.bounds,
            "outside_the_claim": self.outside,
            "queries": [
                {"name": o.name, "engine": o.engine, "verdict": o.verdict,
                 "seconds": round(o.seconds, 3), **({"detail": o.detail} if o.detail else {})}
                for o in self.obligations
            ],
            "known_findings_reproduced": self.known_hits,
            "violations": self.violations,
            "inconclusive": self.inconclusive,
        }
        cov.update(self.extra)
        if cov["states"] < 1:
            cov.pop("states"); cov.pop("transitions")
        ev = {
            "property_id": self.pid,
            "tier": self.tier,
            "seed": self.seed,
            "level": self.level,
            "coverage": cov,
            "assumptions": self.assumptions,
            "wall_s": wall,
            "violations": len(self.violations),
        }
        os.makedirs(os.path.join(VERIF, "evidence"), exist_ok=True)
        with open(os.path.join(VERIF, "evidence", f"{self.pid}.json"), "w") as f:
            json.dump(ev, f, indent=1, default=str)
        if self.violations:
            print(f"{self.pid}: {len(self.violations)} violation(s); {wall}s")
            return EXIT_VIOLATION
        if self.inconclusive:
            for m in self.inconclusive[:20]:
                print(f"INCONCLUSIVE {self.pid}: {m}")
            return EXIT_INCONCLUSIVE
        print(f"{self.pid}: held within bounds; {n_held} obligations discharged, {n_twin} twins, "
              f"{len(self.known_hits)} known-finding witnesses; solver {solver_s}s, wall {wall}s")
        return EXIT_OK


# --------------------------------------------------------------------------
# CrossHair orchestration
# --------------------------------------------------------------------------
@dataclass
class Cond:
    """One CrossHair condition: function `func` of harness module file `module`,
    run with `cfg` (JSON, passed in env VERIF_CFG)."""
    name: str
    module: str
    func: str
    cfg: dict[str, Any] = field(default_factory=dict)
    timeout: int = 120
    expect_violation: bool = False  # vacuity twin


@dataclass
class CondResult:
    cond: Cond
    status: str  # confirmed | counterexample | not_confirmed | no_precondition | error | timeout
    seconds: float
    args: Optional[list[Any]] = None
    message: str = ""
    paths: int = 0
    raw: str = ""


_LINE_CACHE: dict[tuple[str, str], int] = {}


def func_line(module: str, func: str) -> int:
    key = (module, func)
    if key not in _LINE_CACHE:
        tree = ast.parse(open(module).read())
        for node in ast.walk(tree):
            if isinstance(node, ast.FunctionDef):
                # a line inside the body (the docstring line)
                _LINE_CACHE[(module, node.name)] = node.body[0].lineno
    return _LINE_CACHE[key]


def _parse_call_args(msg: str, func: str) -> Optional[list[Any]]:
    m = re.search(r"when calling " + re.escape(func) + r"\((.*?)\)(?: \(which (?:returns|raises)|\s*$)", msg, re.S)
    if not m:
        return None
    try:
        call = ast.parse(f"f({m.group(1)})", mode="eval").body
        assert isinstance(call, ast.Call)
        vals = [ast.literal_eval(a) for a in call.args]
        vals += [ast.literal_eval(k.value) for k in call.keywords]
        return vals
    except Exception:
        return None


def run_cond(c: Cond) -> CondResult:
    os.makedirs(WORK, exist_ok=True)
    line = func_line(c.module, c.func)
    pathlog = os.path.join(WORK, f"paths_{os.getpid()}_{abs(hash((c.name, c.func, time.time())))}.log")
    env = child_env({"VERIF_CFG": json.dumps(c.cfg), "VERIF_PATHLOG": pathlog})
    cmd = [PY, "-m", "crosshair", "check", "--report_all",
           "--per_condition_timeout", str(c.timeout),
           "--per_path_timeout", str(max(10, c.timeout // 4)),
           # the model holder is built by the real SQLDataHolder constructor, which opens a throw-away in-memory engine
           "--unblock", "sqlite3.connect", "sqlite3.connect/handle", "--report_all",
           f"{c.module}:{line}"]
    t0 = time.time()
    try:
        p = subprocess.run(cmd, env=env, capture_output=True, text=True,
                           timeout=c.timeout * 2 + 120, cwd=VERIF)
        out = (p.stdout or "") + (p.stderr or "")
    except subprocess.TimeoutExpired as e:
        out = "TIMEOUT " + str(e)
    dt = time.time() - t0
    paths = 0
    if os.path.exists(pathlog):
        paths = os.path.getsize(pathlog)
        os.unlink(pathlog)
    res = CondResult(c, "error", dt, raw=out[-4000:], paths=paths)
    if out.startswith("TIMEOUT"):
        res.status = "timeout"
    elif "Confirmed over all paths" in out:
        res.status = "confirmed"
    elif re.search(r": error: ", out):
        m = re.search(r": error: (.*)", out, re.S)
        res.message = m.group(1).strip() if m else ""
        res.args = _parse_call_args(res.message, c.func)
        res.status = "counterexample" if res.args is not None else "error"
    elif "Not confirmed" in out:
        res.status = "not_confirmed"
    elif "Unable to meet precondition" in out:
        res.status = "no_precondition"
    return res


def run_conds(conds: list[Cond], jobs: int = NCPU) -> list[CondResult]:
    with ThreadPoolExecutor(max_workers=jobs) as ex:
        return list(ex.map(run_cond, conds))


def replay_call(module: str, func: str, args: list[Any], cfg: dict[str, Any],
                timeout: int = 300) -> dict[str, Any]:
    """Call `module.func(args, cfg)` (a harness's concrete replay entry) in a fresh
    interpreter that has no CrossHair tracing; returns its JSON result."""
    code = (
        "import json,sys,importlib.util\n"
        "spec=importlib.util.spec_from_file_location('h',sys.argv[1]);m=importlib.util.module_from_spec(spec)\n"
        "sys.modules['h']=m;spec.loader.exec_module(m)\n"
        "r=getattr(m,sys.argv[2])(json.loads(sys.argv[3]),json.loads(sys.argv[4]))\n"
        "print('@@REPLAY@@'+json.dumps(r,default=str))\n"
    )
    env = child_env({"VERIF_CFG": json.dumps(cfg), "VERIF_REPLAY": "1"})
    p = subprocess.run([PY, "-c", code, module, func, json.dumps(args), json.dumps(cfg)],
                       env=env, capture_output=True, text=True, timeout=timeout, cwd=VERIF)
    for line in (p.stdout or "").splitlines():
        if line.startswith("@@REPLAY@@"):
            return json.loads(line[len("@@REPLAY@@"):])
    return {"error": (p.stdout or "")[-1500:] + (p.stderr or "")[-2500:]}


_PATH_FD: Optional[int] = None
if os.environ.get("VERIF_PATHLOG"):
    # opened at import, i.e. before CrossHair starts tracing (it blocks open() during analysis)
    try:
        _PATH_FD = os.open(os.environ["VERIF_PATHLOG"], os.O_WRONLY | os.O_APPEND | os.O_CREAT, 0o644)
    except OSError:
        _PATH_FD = None


def path_tick() -> None:
    """Called by harness bodies once per explored path (after preconditions)."""
    if _PATH_FD is not None:
        os.write(_PATH_FD, b".")


def untraced(fn: Callable[[], Any]) -> Any:
    """Run fn outside CrossHair tracing (no-op when not tracing).  For harness-side work on values that are
    concrete on the current path (oracles, input construction) and for SQLAlchemy's own statement introspection."""
    try:
        from crosshair.tracers import NoTracing, is_tracing
    except Exception:  # pragma: no cover
        return fn()
    if is_tracing():
        with NoTracing():
            return fn()
    return fn()


def cfg() -> dict[str, Any]:
    return json.loads(os.environ.get("VERIF_CFG", "{}"))


def handle_crosshair_results(
    chk: Check, results: list[CondResult],
    replay: Callable[[CondResult], tuple[bool, str, str, dict[str, Any]]],
) -> None:
    """Fold CrossHair results into the check. `replay(res)` re-runs the
    counterexample on the real code and returns (reproduced, signature, what, replay_record)."""
    for r in results:
        c = r.cond
        chk.states += r.paths
        chk.transitions += r.paths
        if c.expect_violation:
            chk.twin(c.name, "crosshair", r.status == "counterexample", r.seconds,
                     status=r.status, paths=r.paths)
            continue
        if r.status == "confirmed":
            chk.held(c.name, "crosshair", r.seconds, paths=r.paths, cfg=c.cfg)
        elif r.status == "counterexample":
            try:
                ok, sig, what, rec = replay(r)
            except Exception as e:  # noqa
                ok, sig, what, rec = False, "replay-crashed", f"replay crashed: {e!r}", {}
            rec = dict(rec)
            rec.update({"module": os.path.relpath(c.module, VERIF), "func": c.func,
                        "args": r.args, "cfg": c.cfg, "crosshair_message": r.message[:600]})
            chk.counterexample(c.name, "crosshair", r.seconds, sig=sig, what=what,
                               replay=rec, reproduced=ok)
        else:
            chk.unknown(c.name, "crosshair", r.seconds,
                        f"CrossHair: {r.status}", raw=r.raw[-800:], paths=r.paths)
