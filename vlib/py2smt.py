"""py2smt: a small symbolic interpreter of a Python subset into z3 terms.

Used for C16 (timestamp conversion).  The function's AST is read from the
repository source on every run; nothing is imported or executed.  Supported:
straight-line bodies (docstring, assignments, return), names, constants,
``+ - * / //``, calls to functions of the same module (inlined), and a table of
modelled stdlib contracts (datetime / timedelta / float / int / round / str
methods) listed in ``CONTRACTS``.  Anything else raises ``NotEncodable`` which
the check reports as inconclusive (exit 2), never as a verdict.

Abstract values
  SInt     list of (guard, z3 Int term, lo, hi)
  SFloat   list of ieee_int.FCase
  SDateTime(us: SInt, aware)   microseconds since the Unix epoch (UTC wall clock)
  STimeDelta(us: SInt)
  SPVStr(us: SInt, fields: frozenset, z: bool)   a timestamp string that shows the
           given fields of the instant (date = %Y,%m,%d together)
  python constants (int, float, str) and markers for stdlib names
"""
from __future__ import annotations

import ast
import math
import re
from dataclasses import dataclass
from fractions import Fraction as Fr
from typing import Any, Optional

import z3

from vlib import ieee_int as fp


class NotEncodable(Exception):
    pass


_NO_RETURN = object()


@dataclass
class Marker:
    name: str  # e.g. "datetime.datetime", "datetime.UTC"


@dataclass
class SInt:
    cases: list[tuple[Any, Any, int, int]]  # guard, term, lo, hi


@dataclass
class SFloat:
    cases: list[fp.FCase]


@dataclass
class SDateTime:
    us: SInt
    aware: bool
    folds: Optional[list] = None   # per case of `us`: z3 Bool "fold == 1" (naive local datetimes only)


@dataclass
class STimeDelta:
    us: SInt


UNKNOWN_DIRECTIVES: list[str] = []
FULL_FIELDS = frozenset({"date", "H", "M", "S", "f"})
CANONICAL_FORMAT = "%Y-%m-%dT%H:%M:%S.%fZ"


@dataclass
class SPVStr:
    us: SInt
    fields: frozenset
    z: bool
    layout_iso: bool  # the literal layout is one fromisoformat() accepts (after rstrip Z)
    fmt: str = CANONICAL_FORMAT


@dataclass
class SText:
    """text assembled by the code itself: list of ("lit", str) | ("int", SInt, width, zero_pad)"""
    parts: list


@dataclass
class BoundMethod:
    obj: Any
    name: str


CONTRACTS = [
    "int / float: the int is converted to binary64 first (round-to-nearest-even), then IEEE division",
    "float * float, float + float, float / float: IEEE-754 binary64 RNE (one operand constant or both case-split)",
    "int(float): truncation; round(float): round-half-even",
    "datetime.fromtimestamp(x, tz=UTC): modf(x); frac*1e6 (RNE); round-half-even; carry "
    "(CPython _PyTime_DoubleToDenominator / utc_to_seconds path for tz=UTC)",
    "aware_dt.timestamp(): correctly rounded (dt - epoch).total_seconds() = RNE(us / 10**6)",
    "dt.strftime(fmt): shows exactly the fields named by the directives of the literal fmt "
    "(%Y %m %d %H %M %S %f; %Y,%m,%d are treated as one composite 'date' field)",
    "datetime.fromisoformat(s.rstrip('Z')) inverts strftime('%Y-%m-%dT%H:%M:%S.%f') on years 1000..9999",
    "dt.replace(tzinfo=timezone.utc): same wall clock, aware UTC",
    "process time zone (only if the code uses naive local-time operations): standard offset (multiple of 15 min, +-12 h) and one "
    "fall-back transition; fromtimestamp() sets fold=1 in the repeated hour, arithmetic resets it, astimezone()/timestamp() honour it",
    "dt - dt -> timedelta (exact us); timedelta // timedelta -> floor int; timedelta(microseconds=c)",
    "dt.microsecond: us mod 10**6",
]


def parse_strftime(fmt: str) -> tuple[frozenset, bool, bool]:
    """-> (fields shown, trailing Z, layout is the ISO layout fromisoformat accepts)."""
    dirs = re.findall(r"%(.)", fmt)
    known = {"Y": "Y", "m": "m", "d": "d", "H": "H", "M": "M", "S": "S", "f": "f"}
    UNKNOWN_DIRECTIVES[:] = [d for d in dirs if d not in known]
    # a directive that is not modelled contributes an uninterpreted rendering: the field it stands for is treated as
    # not shown, which makes the "string determines the instant" query satisfiable; the check then looks for a real witness
    fields = set()
    if {"Y", "m", "d"} <= set(dirs):
        fields.add("date")
    for d in ("H", "M", "S", "f"):
        if d in dirs:
            fields.add(d)
    z = fmt.endswith("Z")
    iso = fmt.rstrip("Z") in (
        "%Y-%m-%dT%H:%M:%S.%f", "%Y-%m-%d %H:%M:%S.%f", "%Y-%m-%dT%H:%M:%S",
        "%Y-%m-%d", "%Y-%m-%dT%H:%M", "%Y-%m-%dT%H",
    )
    return frozenset(fields), z, iso


def field_terms(us: Any) -> dict[str, Any]:
    """The fields of an instant given as microseconds since the epoch (>= 0)."""
    day = us / 86_400_000_000
    rem = us % 86_400_000_000
    return {
        "date": day,
        "H": rem / 3_600_000_000,
        "M": (rem % 3_600_000_000) / 60_000_000,
        "S": (rem % 60_000_000) / 1_000_000,
        "f": rem % 1_000_000,
    }


# Environment: the process time zone.  Standard offset TZOFF (seconds east of UTC) and ONE "fall back" transition at the
# UTC second TZT: before it the offset is TZOFF + 3600 (daylight time), from it on TZOFF.  A transition far away from
# every instant of interest is the fixed-offset case.  Spring-forward gaps and further transitions are not modelled.
TZOFF = z3.Int("tzoff")
TZT = z3.Int("tz_transition_s")
TZ_CONSTRAINTS = [TZOFF >= -43200, TZOFF <= 43200, TZOFF % 900 == 0, TZT >= 86400, TZT <= 4102444800 + 86400]
_DST = 3600 * 10**6
_SPAN = (43200 + 3600) * 10**6


def shift(us: SInt, delta: Any, dlo: int, dhi: int) -> SInt:
    return SInt([(g, t + delta, lo + dlo, hi + dhi) for g, t, lo, hi in us.cases])


def utc_to_local(us: SInt) -> tuple[SInt, list]:
    """-> (local wall clock, per-case fold flag) as datetime.fromtimestamp(x) without tz computes it"""
    T = TZT * 10**6
    off = TZOFF * 10**6
    cases, folds = [], []
    for g, t, lo, hi in us.cases:
        cases.append((z3.And(g, t < T), t + off + _DST, lo - _SPAN, hi + _SPAN))
        folds.append(z3.BoolVal(False))
        cases.append((z3.And(g, t >= T), t + off, lo - _SPAN, hi + _SPAN))
        folds.append(t < T + _DST)              # second pass through the repeated hour
    return SInt(cases), folds


def local_to_utc(us: SInt, folds: Optional[list]) -> SInt:
    """naive wall clock (with its fold flags) -> UTC, as .astimezone() / .timestamp() interpret it"""
    T = TZT * 10**6
    off = TZOFF * 10**6
    cases = []
    for i, (g, t, lo, hi) in enumerate(us.cases):
        f = folds[i] if folds is not None else z3.BoolVal(False)
        ambiguous = z3.And(t >= T + off, t < T + off + _DST)
        use_dst = z3.Or(t < T + off, z3.And(ambiguous, z3.Not(f)))
        cases.append((z3.And(g, use_dst), t - off - _DST, lo - _SPAN, hi + _SPAN))
        cases.append((z3.And(g, z3.Not(use_dst)), t - off, lo - _SPAN, hi + _SPAN))
    return SInt(cases)


class Interp:
    def __init__(self, source: str, ctx: fp.Ctx, extra_sources: Optional[dict[str, str]] = None):
        self.ctx = ctx
        self.uses_tz = False
        self.tree = ast.parse(source)
        self.funcs: dict[str, ast.FunctionDef] = {}
        self.globals: dict[str, Any] = {}
        self.lazy_globals: dict[str, ast.AST] = {}
        self.trace: list[str] = []  # functions inlined
        for node in self.tree.body:
            if isinstance(node, ast.FunctionDef):
                self.funcs[node.name] = node
            elif isinstance(node, ast.ImportFrom) and node.module == "datetime":
                for a in node.names:
                    self.globals[a.asname or a.name] = Marker("datetime." + a.name)
            elif isinstance(node, ast.Import):
                for a in node.names:
                    if a.name == "datetime":
                        self.globals[a.asname or a.name] = Marker("datetime")
            elif (isinstance(node, ast.Assign) and len(node.targets) == 1 and isinstance(node.targets[0], ast.Name)
                  and isinstance(node.value, ast.Constant) and isinstance(node.value.value, (int, float, str))
                  and not isinstance(node.value.value, bool)):
                self.globals[node.targets[0].id] = node.value.value   # module-level constant
            elif (isinstance(node, ast.Assign) and len(node.targets) == 1 and isinstance(node.targets[0], ast.Name)
                  and isinstance(node.value, (ast.Call, ast.BinOp, ast.Attribute))):
                self.lazy_globals[node.targets[0].id] = node.value   # e.g. UNIX_EPOCH = datetime(1970, 1, 1)
            elif (isinstance(node, ast.AnnAssign) and isinstance(node.target, ast.Name) and isinstance(node.value, ast.Constant)
                  and isinstance(node.value.value, (int, float, str)) and not isinstance(node.value.value, bool)):
                self.globals[node.target.id] = node.value.value

    # ------------------------------------------------------------------
    def call(self, fname: str, args: list[Any], kwargs: Optional[dict[str, Any]] = None) -> Any:
        if fname not in self.funcs:
            raise NotEncodable(f"function {fname} not found in module")
        f = self.funcs[fname]
        self.trace.append(fname)
        params = [a.arg for a in f.args.args]
        if len(args) > len(params) or f.args.vararg or f.args.kwarg or f.args.kwonlyargs:
            raise NotEncodable(f"arity of {fname}")
        env = dict(zip(params, args))
        for k, v in (kwargs or {}).items():
            if k not in params or k in env:
                raise NotEncodable(f"keyword {k} of {fname}")
            env[k] = v
        defaults = f.args.defaults
        for p_, d in zip(params[len(params) - len(defaults):], defaults):
            if p_ not in env:
                env[p_] = self.ev(d, {})
        if len(env) != len(params):
            raise NotEncodable(f"arity of {fname}")
        return self.run_body(f.body, env, fname)

    def run_body(self, body: list[ast.stmt], env: dict[str, Any], fname: str) -> Any:
        r = self.block(body, env, fname)
        if r is _NO_RETURN:
            raise NotEncodable(f"{fname} does not return")
        return r

    def block(self, body: list[ast.stmt], env: dict[str, Any], fname: str) -> Any:
        for st in body:
            if isinstance(st, ast.If):
                cond = self.ev(st.test, env)
                if not isinstance(cond, bool):
                    raise NotEncodable("if on a symbolic condition")
                r = self.block(st.body if cond else st.orelse, env, fname)
                if r is not _NO_RETURN:
                    return r
                continue
            if isinstance(st, ast.Expr) and isinstance(st.value, ast.Constant):
                continue  # docstring
            if isinstance(st, ast.Assign) and len(st.targets) == 1 and isinstance(st.targets[0], ast.Name):
                env[st.targets[0].id] = self.ev(st.value, env)
            elif (isinstance(st, ast.Assign) and len(st.targets) == 1 and isinstance(st.targets[0], ast.Tuple)
                  and all(isinstance(e, ast.Name) for e in st.targets[0].elts)):
                val = self.ev(st.value, env)
                if not isinstance(val, tuple) or len(val) != len(st.targets[0].elts):
                    raise NotEncodable("tuple assignment of a non-tuple")
                for e, v in zip(st.targets[0].elts, val):
                    env[e.id] = v  # type: ignore[attr-defined]
            elif isinstance(st, ast.AnnAssign) and isinstance(st.target, ast.Name) and st.value is not None:
                env[st.target.id] = self.ev(st.value, env)
            elif isinstance(st, ast.Return) and st.value is not None:
                return self.ev(st.value, env)
            else:
                raise NotEncodable(f"statement {type(st).__name__} at line {st.lineno} of {fname}")
        return _NO_RETURN

    # ------------------------------------------------------------------
    def ev(self, n: ast.AST, env: dict[str, Any]) -> Any:
        if isinstance(n, ast.Constant):
            if n.value is None or isinstance(n.value, (int, float, str, bool)):
                return n.value
            raise NotEncodable(f"constant {n.value!r}")
        if isinstance(n, ast.Compare) and len(n.ops) == 1 and isinstance(n.ops[0], (ast.Is, ast.IsNot)):
            a, b = self.ev(n.left, env), self.ev(n.comparators[0], env)
            if a is None or b is None:
                same = a is None and b is None
                return same if isinstance(n.ops[0], ast.Is) else not same
            raise NotEncodable("identity comparison of non-None values")
        if isinstance(n, ast.Name):
            if n.id in env:
                return env[n.id]
            if n.id in self.globals:
                return self.globals[n.id]
            if n.id in self.lazy_globals:
                node = self.lazy_globals.pop(n.id)
                self.globals[n.id] = self.ev(node, {})
                return self.globals[n.id]
            if n.id in ("int", "round", "float", "divmod", "str"):
                return Marker("builtin." + n.id)
            if n.id in self.funcs:
                return Marker("func." + n.id)
            raise NotEncodable(f"name {n.id}")
        if isinstance(n, ast.Attribute):
            base = self.ev(n.value, env)
            return self.attr(base, n.attr)
        if isinstance(n, ast.JoinedStr):
            parts: list = []
            for part in n.values:
                if isinstance(part, ast.Constant) and isinstance(part.value, str):
                    parts.append(("lit", part.value))
                elif isinstance(part, ast.FormattedValue) and part.conversion == -1:
                    v = self.ev(part.value, env)
                    spec = ""
                    if part.format_spec is not None:
                        fs = part.format_spec
                        if not (isinstance(fs, ast.JoinedStr) and all(isinstance(x, ast.Constant) for x in fs.values)):
                            raise NotEncodable("computed format spec")
                        spec = "".join(x.value for x in fs.values)  # type: ignore[attr-defined]
                    if isinstance(v, (str, int)) and not spec:
                        parts.append(("lit", str(v)))
                    elif isinstance(v, SInt):
                        mm = re.fullmatch(r"(0?)(\d*)d?", spec)
                        if not mm:
                            raise NotEncodable(f"format spec {spec!r}")
                        parts.append(("int", v, int(mm.group(2) or 0), bool(mm.group(1))))
                    elif isinstance(v, (SPVStr, SText)) and not spec:
                        parts.append(("val", v))
                    else:
                        raise NotEncodable(f"f-string part of type {type(v).__name__} with spec {spec!r}")
                else:
                    raise NotEncodable("f-string conversion")
            return self.concat([SText([p]) if p[0] != "val" else p[1] for p in parts])
        if isinstance(n, ast.UnaryOp) and isinstance(n.op, ast.USub):
            v = self.ev(n.operand, env)
            if isinstance(v, (int, float)):
                return -v
            raise NotEncodable("unary minus on symbolic value")
        if isinstance(n, ast.BinOp):
            return self.binop(n.op, self.ev(n.left, env), self.ev(n.right, env))
        if isinstance(n, ast.Call):
            fn = self.ev(n.func, env)
            args = [self.ev(a, env) for a in n.args]
            kw = {k.arg: self.ev(k.value, env) for k in n.keywords}
            return self.apply(fn, args, kw)
        raise NotEncodable(f"expression {type(n).__name__} at line {getattr(n, 'lineno', '?')}")

    # ------------------------------------------------------------------
    def attr(self, base: Any, name: str) -> Any:
        if isinstance(base, Marker):
            if base.name == "datetime" and name in ("datetime", "timezone", "timedelta", "UTC"):
                return Marker("datetime." + name)
            if base.name == "datetime.timezone" and name == "utc":
                return Marker("datetime.UTC")
            if base.name == "datetime.datetime" and name in ("fromtimestamp", "fromisoformat", "utcfromtimestamp"):
                return Marker("datetime.datetime." + name)
            raise NotEncodable(f"attribute {base.name}.{name}")
        if isinstance(base, SDateTime):
            if name == "microsecond":
                return SInt([(g, t % 1_000_000, 0, 999_999) for g, t, _, _ in base.us.cases])
            if name in ("strftime", "replace", "timestamp", "astimezone"):
                return BoundMethod(base, name)
        if isinstance(base, SPVStr) and name in ("rstrip", "replace", "removesuffix", "strip"):
            return BoundMethod(base, name)
        if isinstance(base, STimeDelta) and name == "total_seconds":
            return BoundMethod(base, name)
        raise NotEncodable(f"attribute .{name} on {type(base).__name__}")

    # ------------------------------------------------------------------
    def to_float(self, v: Any) -> Any:
        if isinstance(v, SFloat) or isinstance(v, float):
            return v
        if isinstance(v, int):
            return float(v)
        if isinstance(v, SInt):
            cases: list[fp.FCase] = []
            for g, t, lo, hi in v.cases:
                if lo < 0:
                    raise NotEncodable("negative int to float")
                cases += fp.from_int(self.ctx, g, t, lo, hi)
            return SFloat(cases)
        raise NotEncodable(f"float() of {type(v).__name__}")

    def binop(self, op: ast.operator, a: Any, b: Any) -> Any:
        num = (int, float)
        if isinstance(a, num) and isinstance(b, num) and not isinstance(a, bool):
            if isinstance(op, ast.Add): return a + b
            if isinstance(op, ast.Sub): return a - b
            if isinstance(op, ast.Mult): return a * b
            if isinstance(op, ast.Div): return a / b
            if isinstance(op, ast.FloorDiv): return a // b
            if isinstance(op, ast.Pow): return a ** b
            if isinstance(op, ast.Mod): return a % b
        if isinstance(op, ast.Add) and isinstance(a, (SPVStr, SText, str)) and isinstance(b, (SPVStr, SText, str)):
            return self.concat([SText([("lit", x)]) if isinstance(x, str) else x for x in (a, b)])
        # datetime / timedelta algebra
        if isinstance(a, SDateTime) and isinstance(b, SDateTime) and isinstance(op, ast.Sub):
            if a.aware != b.aware:
                raise NotEncodable("aware - naive datetime (TypeError at run time)")
            return STimeDelta(self.int_binop(ast.Sub(), a.us, b.us))
        if isinstance(a, SDateTime) and isinstance(b, STimeDelta) and isinstance(op, (ast.Add, ast.Sub)):
            return SDateTime(self.int_binop(op, a.us, b.us), a.aware)
        if isinstance(a, STimeDelta) and isinstance(b, SDateTime) and isinstance(op, ast.Add):
            return SDateTime(self.int_binop(op, a.us, b.us), b.aware)
        if isinstance(a, STimeDelta) and isinstance(b, STimeDelta):
            if isinstance(op, ast.FloorDiv):
                return self.int_binop(op, a.us, b.us)
            if isinstance(op, ast.Div):
                # timedelta / timedelta: correctly rounded ratio of the two microsecond counts
                if len(b.us.cases) == 1 and z3.is_int_value(z3.simplify(b.us.cases[0][1])):
                    c = z3.simplify(b.us.cases[0][1]).as_long()
                    cases: list[fp.FCase] = []
                    for g, t, lo, hi in a.us.cases:
                        cases += fp.rne_rational(self.ctx, g, t, Fr(c), Fr(lo, c), Fr(hi, c))
                    return SFloat(cases)
                raise NotEncodable("timedelta / symbolic timedelta")
        # int algebra
        if isinstance(a, (SInt, int)) and isinstance(b, (SInt, int)) and not isinstance(op, ast.Div):
            return self.int_binop(op, a, b)
        # float algebra
        if isinstance(a, (SInt, SFloat, int, float)) and isinstance(b, (SInt, SFloat, int, float)):
            fa, fb = self.to_float(a), self.to_float(b)
            return self.float_binop(op, fa, fb)
        raise NotEncodable(f"operator {type(op).__name__} on {type(a).__name__}, {type(b).__name__}")

    def concat(self, items: list[Any]) -> Any:
        """Concatenation of text values.  Recognised shape: strftime('%Y-%m-%dT%H:%M:%S') + '.' + <int:06d> [+ 'Z'], which
        renders a timestamp whose fraction digits come from an integer the code computed itself."""
        flat: list = []
        for it in items:
            if isinstance(it, SText):
                flat += it.parts
            elif isinstance(it, SPVStr):
                flat.append(("pv", it))
            else:
                raise NotEncodable("concatenation of this value")
        merged: list = []
        for p in flat:   # merge adjacent literals
            if p[0] == "lit" and merged and merged[-1][0] == "lit":
                merged[-1] = ("lit", merged[-1][1] + p[1])
            elif not (p[0] == "lit" and p[1] == ""):
                merged.append(p)
        if len(merged) == 1 and merged[0][0] == "pv":
            return merged[0][1]
        if all(p[0] != "pv" for p in merged):
            return SText(merged)
        if (len(merged) in (3, 4) and merged[0][0] == "pv" and merged[0][1].fmt == "%Y-%m-%dT%H:%M:%S"
                and merged[1] == ("lit", ".") and merged[2][0] == "int"
                and (len(merged) == 3 or merged[3] == ("lit", "Z"))):
            pv, (_k, frac, width, zero) = merged[0][1], merged[2]
            cases = []
            for g1, t1, lo1, hi1 in pv.us.cases:
                for g2, f, _lo2, _hi2 in frac.cases:
                    g = z3.And(g1, g2)
                    # exactly `width` digits are printed iff 0 <= f < 10**width (zero padded); otherwise the text is malformed
                    wf = z3.And(f >= 0, f < 10 ** 6) if (width == 6 and zero) else z3.BoolVal(False)
                    cases.append((z3.And(g, wf), (t1 / 10**6) * 10**6 + f, lo1, hi1 + 10**6))
                    cases.append((z3.And(g, z3.Not(wf)), z3.IntVal(-1), -1, -1))   # malformed text denotes no instant
            return SPVStr(SInt(cases), FULL_FIELDS, len(merged) == 4, True, CANONICAL_FORMAT)
        raise NotEncodable("text layout assembled by the code is not a recognised timestamp layout")

    def int_binop(self, op: ast.operator, a: Any, b: Any) -> SInt:
        def lift(v: Any) -> SInt:
            return v if isinstance(v, SInt) else SInt([(z3.BoolVal(True), z3.IntVal(v), v, v)])
        A, B = lift(a), lift(b)
        out = []
        for g1, t1, lo1, hi1 in A.cases:
            for g2, t2, lo2, hi2 in B.cases:
                g = z3.And(g1, g2)
                if isinstance(op, ast.Add):
                    out.append((g, t1 + t2, lo1 + lo2, hi1 + hi2))
                elif isinstance(op, ast.Sub):
                    out.append((g, t1 - t2, lo1 - hi2, hi1 - lo2))
                elif isinstance(op, ast.Mult):
                    if lo1 == hi1:
                        out.append((g, lo1 * t2, min(lo1 * lo2, lo1 * hi2), max(lo1 * lo2, lo1 * hi2)))
                    elif lo2 == hi2:
                        out.append((g, t1 * lo2, min(lo1 * lo2, hi1 * lo2), max(lo1 * lo2, hi1 * lo2)))
                    else:
                        raise NotEncodable("symbolic * symbolic")
                elif isinstance(op, (ast.FloorDiv, ast.Mod)):
                    if lo2 != hi2 or lo2 <= 0:
                        raise NotEncodable("division by a non-constant or non-positive int")
                    if isinstance(op, ast.FloorDiv):
                        # z3 Int division is floor for positive divisors
                        out.append((g, t1 / lo2, lo1 // lo2, hi1 // lo2))
                    else:
                        out.append((g, t1 % lo2, 0, lo2 - 1))
                else:
                    raise NotEncodable(f"int operator {type(op).__name__}")
        return SInt(out)

    def float_binop(self, op: ast.operator, a: Any, b: Any) -> Any:
        ctx = self.ctx
        if isinstance(a, float) and isinstance(b, float):
            return self.binop(op, a, b)
        if isinstance(a, SFloat) and isinstance(b, float):
            if b <= 0 or math.isinf(b) or math.isnan(b):
                raise NotEncodable("non-positive float constant")
            if isinstance(op, ast.Div): return SFloat(fp.div_const(ctx, a.cases, Fr(b)))
            if isinstance(op, ast.Mult): return SFloat(fp.mul_const(ctx, a.cases, Fr(b)))
            if isinstance(op, ast.Add):
                return SFloat(fp.add(ctx, a.cases, [fp.FCase(z3.BoolVal(True), z3.IntVal(1), 0, Fr(1), Fr(1))]
                                     if b == 1.0 else self.const_cases(b)))
        if isinstance(a, float) and isinstance(b, SFloat):
            if isinstance(op, (ast.Mult, ast.Add)):
                return self.float_binop(op, b, a)
        if isinstance(a, SFloat) and isinstance(b, SFloat):
            if isinstance(op, ast.Add):
                return SFloat(fp.add(ctx, a.cases, b.cases))
        raise NotEncodable(f"float operator {type(op).__name__} on this operand shape")

    def const_cases(self, c: float) -> list[fp.FCase]:
        f = Fr(c)
        # c = num / 2**k exactly
        k = f.denominator.bit_length() - 1
        return [fp.FCase(z3.BoolVal(True), z3.IntVal(f.numerator), -k, f, f)]

    # ------------------------------------------------------------------
    def apply(self, fn: Any, args: list[Any], kw: dict[str, Any]) -> Any:
        if isinstance(fn, Marker):
            nm = fn.name
            if nm.startswith("func."):
                return self.call(nm[5:], args, kw)
            if nm == "builtin.int" and len(args) == 1:
                v = args[0]
                if isinstance(v, SInt): return v
                if isinstance(v, SFloat): return SInt(fp.trunc(v.cases))
            if nm == "builtin.round" and len(args) == 1:
                v = args[0]
                if isinstance(v, SInt): return v
                if isinstance(v, SFloat): return SInt(fp.round_half_even(self.ctx, v.cases))
            if nm == "builtin.float" and len(args) == 1:
                return self.to_float(args[0])
            if nm == "builtin.divmod" and len(args) == 2 and isinstance(args[0], (SInt, int)) and isinstance(args[1], int):
                return (self.int_binop(ast.FloorDiv(), args[0], args[1]), self.int_binop(ast.Mod(), args[0], args[1]))
            if nm == "builtin.str" and len(args) == 1 and isinstance(args[0], SInt):
                return SText([("int", args[0], 0, False)])
            if nm == "datetime.datetime.fromtimestamp":
                tz = kw.get("tz", args[1] if len(args) > 1 else None)
                inst = self.fromtimestamp(self.to_float(args[0]))
                if tz is None:
                    # naive local wall clock: depends on the process time zone (environment variable TZOFF)
                    self.uses_tz = True
                    loc, folds = utc_to_local(inst)
                    return SDateTime(loc, False, folds)
                if not (isinstance(tz, Marker) and tz.name == "datetime.UTC"):
                    raise NotEncodable("fromtimestamp with a tz other than UTC")
                return SDateTime(inst, True)
            if nm == "datetime.datetime.utcfromtimestamp":
                return SDateTime(self.fromtimestamp(self.to_float(args[0])), False)
            if nm == "datetime.datetime.fromisoformat" and len(args) == 1:
                s = args[0]
                if not isinstance(s, SPVStr):
                    raise NotEncodable("fromisoformat of a non-timestamp string")
                if not s.layout_iso:
                    raise NotEncodable("fromisoformat on a layout it does not accept")
                if s.fields != FULL_FIELDS:
                    raise NotEncodable("fromisoformat of a partial timestamp")
                return SDateTime(s.us, s.z)  # 3.11+: a trailing Z yields an aware UTC datetime
            if nm == "datetime.datetime":
                tz = kw.get("tzinfo", args[7] if len(args) > 7 else None)
                vals = args[:7] + [0] * (7 - len(args[:7]))
                if not all(isinstance(v, int) for v in vals):
                    raise NotEncodable("datetime(...) with symbolic fields")
                import datetime as _dt
                d = _dt.datetime(*vals, tzinfo=_dt.timezone.utc)
                us = (d - _dt.datetime(1970, 1, 1, tzinfo=_dt.timezone.utc)) // _dt.timedelta(microseconds=1)
                aware = isinstance(tz, Marker) and tz.name == "datetime.UTC"
                if tz is not None and not aware:
                    raise NotEncodable("tzinfo other than UTC")
                return SDateTime(SInt([(z3.BoolVal(True), z3.IntVal(us), us, us)]), aware)
            if nm == "datetime.timedelta":
                unit = {"microseconds": 1, "milliseconds": 1000, "seconds": 10**6, "minutes": 60 * 10**6,
                        "hours": 3600 * 10**6, "days": 86400 * 10**6}
                names = ["days", "seconds", "microseconds", "milliseconds", "minutes", "hours"]
                tot: Any = 0
                for i, a in enumerate(args):
                    kw[names[i]] = a
                for k, v in kw.items():
                    if k not in unit:
                        raise NotEncodable("timedelta(...) argument")
                    if isinstance(v, int):
                        part: Any = unit[k] * v
                    elif isinstance(v, SInt):
                        part = self.int_binop(ast.Mult(), v, unit[k])
                    elif isinstance(v, SFloat) and k == "seconds":
                        # CPython accum(): modf, frac*1e6 in double, round-half-even - the same steps as fromtimestamp
                        part = self.fromtimestamp(v)
                    else:
                        raise NotEncodable("timedelta(...) argument")
                    tot = part if (isinstance(tot, int) and tot == 0) else self.int_binop(ast.Add(), tot, part)
                if isinstance(tot, int):
                    tot = SInt([(z3.BoolVal(True), z3.IntVal(tot), tot, tot)])
                return STimeDelta(tot)
            raise NotEncodable(f"call of {nm}")
        if isinstance(fn, BoundMethod):
            o, nm = fn.obj, fn.name
            if isinstance(o, SDateTime):
                if nm == "strftime" and len(args) == 1 and isinstance(args[0], str):
                    fields, z, iso = parse_strftime(args[0])
                    return SPVStr(o.us, fields, z, iso, args[0])
                if nm == "replace" and set(kw) == {"microsecond"} and o.folds is not None:
                    raise NotEncodable("replace() on a naive local datetime that may carry fold=1")
                if nm == "replace" and set(kw) == {"microsecond"} and not args and isinstance(kw["microsecond"], (SInt, int)):
                    mu = kw["microsecond"] if isinstance(kw["microsecond"], SInt) else SInt([(z3.BoolVal(True), z3.IntVal(kw["microsecond"]), kw["microsecond"], kw["microsecond"])])
                    cases = []
                    for g1, t1, lo1, hi1 in o.us.cases:
                        for g2, f, _l, _h in mu.cases:
                            ok = z3.And(f >= 0, f < 10**6)
                            cases.append((z3.And(g1, g2, ok), (t1 / 10**6) * 10**6 + f, lo1 - 10**6, hi1 + 10**6))
                            cases.append((z3.And(g1, g2, z3.Not(ok)), z3.IntVal(-1), -1, -1))   # ValueError at run time
                    return SDateTime(SInt(cases), o.aware)
                if nm == "replace" and set(kw) == {"tzinfo"} and not args:
                    tz = kw["tzinfo"]
                    if isinstance(tz, Marker) and tz.name == "datetime.UTC":
                        return SDateTime(o.us, True)     # same wall clock, now aware: the fold no longer matters for UTC
                    raise NotEncodable("replace(tzinfo=<not UTC>)")
                if nm == "astimezone" and len(args) + len(kw) == 1:
                    tz = args[0] if args else kw.get("tz")
                    if not (isinstance(tz, Marker) and tz.name == "datetime.UTC"):
                        raise NotEncodable("astimezone to a zone other than UTC")
                    if o.aware:
                        return o
                    self.uses_tz = True   # a naive datetime is interpreted in the process time zone
                    return SDateTime(local_to_utc(o.us, o.folds), True)
                if nm == "timestamp" and not args:
                    src = o.us
                    if not o.aware:
                        self.uses_tz = True
                        src = local_to_utc(o.us, o.folds)
                        src = SInt([(z3.And(g, t >= 0), t, max(lo, 0), hi) for g, t, lo, hi in src.cases])
                    cases: list[fp.FCase] = []
                    for g, t, lo, hi in src.cases:
                        cases += fp.rne_rational(self.ctx, g, t, Fr(10**6), Fr(lo, 10**6), Fr(hi, 10**6))
                    return SFloat(cases)
            if isinstance(o, SPVStr):
                if nm in ("rstrip", "strip", "removesuffix") and args == ["Z"]:
                    return SPVStr(o.us, o.fields, False, o.layout_iso)
                if nm == "replace" and len(args) == 2 and args[0] == "Z" and args[1] in ("", "+00:00"):
                    return SPVStr(o.us, o.fields, args[1] != "", o.layout_iso)
            if isinstance(o, STimeDelta) and nm == "total_seconds" and not args:
                cases = []
                for g, t, lo, hi in o.us.cases:
                    cases += fp.rne_rational(self.ctx, g, t, Fr(10**6), Fr(lo, 10**6), Fr(hi, 10**6))
                return SFloat(cases)
            raise NotEncodable(f"method .{nm} with these arguments")
        raise NotEncodable(f"call of {type(fn).__name__}")

    # ------------------------------------------------------------------
    def fromtimestamp(self, x: Any) -> SInt:
        if isinstance(x, float):
            raise NotEncodable("constant timestamp")
        ctx = self.ctx
        out = []
        for xc in x.cases:
            if xc.q >= 0:
                t = xc.m * 2 ** xc.q * 10**6
                out.append((xc.guard, t, math.floor(xc.lo) * 10**6, math.ceil(xc.hi) * 10**6))
                continue
            d = 2 ** -xc.q
            if d * 10**6 <= 2 ** ctx.p:
                # frac*1e6 is exact in binary64 (numerator < 2**53), so the microsecond count is
                # ip*10**6 + rhe(r*10**6/d) = rhe(m*10**6/d): shifting by the even integer ip*10**6
                # changes neither the distance to the neighbours nor the parity used by the tie rule.
                us_all = ctx.fresh("us")
                ctx.roundings.append((us_all, xc.m * 10**6, d, 0))
                out.append((z3.And(xc.guard, fp.rhe(us_all, xc.m * 10**6, d)), us_all,
                            math.floor(xc.lo) * 10**6, (math.floor(xc.hi) + 1) * 10**6))
                continue
            ip = xc.m / d
            r = xc.m % d
            # frac * 1e6 in binary64, then round-half-even
            sc = fp.rne_rational(ctx, xc.guard, r * 10**6, Fr(d), Fr(0), Fr(10**6))
            for g, us, _lo, _hi in fp.round_half_even(ctx, sc):
                out.append((g, ip * 10**6 + us, math.floor(xc.lo) * 10**6, (math.floor(xc.hi) + 1) * 10**6))
        return SInt(out)
