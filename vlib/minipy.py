"""minipy: interpret the AST of small repository functions over Python values in which some
strings are symbolic (z3 String terms).  Used for C09-Q1 (tree hash canonicity): the function
``compute_graph_hash_from_event_ids`` cannot be *executed* on symbolic strings (``"".join`` and the C
hash insist on real ``str``), so its source is read from /repo on every run and interpreted here.

Control flow must be concrete except where it depends on equality of symbolic strings (set / dict
membership, ``==``): those fork paths through vlib.symexec (every feasible path is explored).
Modelled externals: ``sorted`` over symbolic strings = SOME permutation of its arguments (sound
over-approximation for collision search; any model is replayed with the real hash);
``xxhash.xxh64_hexdigest`` = uninterpreted H with |H(s)| = 16 over [0-9a-f], injective on the applied terms.
Anything else raises NotEncodable (reported as inconclusive).
"""
from __future__ import annotations

import ast
import itertools
from typing import Any, Callable, Optional

import z3

from vlib import symexec as X


class NotEncodable(Exception):
    pass


HEX16 = z3.Loop(z3.Union(z3.Range("0", "9"), z3.Range("a", "f")), 16, 16)
H = z3.Function("H", z3.StringSort(), z3.StringSort())


class SymStr:
    def __init__(self, term: Any):
        self.term = term

    def __add__(self, o: Any) -> "SymStr":
        return SymStr(z3.Concat(self.term, _s(o)))

    def __radd__(self, o: Any) -> "SymStr":
        return SymStr(z3.Concat(_s(o), self.term))

    def __eq__(self, o: Any) -> Any:  # type: ignore[override]
        if not isinstance(o, (SymStr, str)):
            return False
        return X.SymBool(self.term == _s(o))

    def __ne__(self, o: Any) -> Any:  # type: ignore[override]
        if not isinstance(o, (SymStr, str)):
            return True
        return X.SymBool(self.term != _s(o))

    def __hash__(self) -> int:
        return 0  # all symbolic strings collide: containers fall back to ==, which forks

    def __repr__(self) -> str:
        return f"SymStr({self.term})"


def _s(x: Any) -> Any:
    if isinstance(x, SymStr):
        return x.term
    if isinstance(x, str):
        return z3.StringVal(x)
    raise NotEncodable(f"string operation on {type(x).__name__}")


class World:
    """Per-path side information: hash applications, permutation constraints."""

    def __init__(self) -> None:
        self.cons: list[Any] = []
        self.applied: list[Any] = []
        self.n = 0

    def hash(self, s: Any) -> SymStr:
        t = _s(s)
        r = H(t)
        self.applied.append(t)
        self.cons += [z3.Length(r) == 16, z3.InRe(r, HEX16)]
        return SymStr(r)

    def sorted_(self, xs: Any, key: Any = None, reverse: bool = False) -> list[Any]:
        xs = list(xs)
        if key is not None:
            raise NotEncodable("sorted(key=...) over symbolic strings")
        if not any(isinstance(x, SymStr) for x in xs):
            return sorted(xs, reverse=reverse)
        if len(xs) <= 1:
            return xs
        outs = [SymStr(z3.String(f"srt{self.n}_{i}")) for i in range(len(xs))]
        self.n += 1
        self.cons.append(z3.Or([z3.And([o.term == _s(xs[j]) for o, j in zip(outs, perm)])
                                for perm in itertools.permutations(range(len(xs)))]))
        return outs

    def injectivity(self) -> list[Any]:
        return [z3.Implies(a != b, H(a) != H(b)) for a, b in itertools.combinations(self.applied, 2)]


class _Return(Exception):
    def __init__(self, v: Any):
        self.v = v


class Interp:
    def __init__(self, source: str, world: World, externals: dict[str, Any]):
        self.funcs = {n.name: n for n in ast.parse(source).body if isinstance(n, ast.FunctionDef)}
        self.w = world
        self.ext = externals
        self.depth = 0

    def call(self, name: str, args: list[Any], kwargs: Optional[dict[str, Any]] = None) -> Any:
        f = self.funcs[name]
        params = [a.arg for a in f.args.args]
        env = dict(zip(params, args))
        env.update(kwargs or {})
        if len(env) != len(params):
            raise NotEncodable(f"arity of {name}")
        self.depth += 1
        if self.depth > 50:
            raise NotEncodable("recursion too deep")
        try:
            self.block(f.body, env)
        except _Return as r:
            return r.v
        finally:
            self.depth -= 1
        return None

    def block(self, body: list[ast.stmt], env: dict[str, Any]) -> None:
        for st in body:
            if isinstance(st, ast.Expr):
                if not isinstance(st.value, ast.Constant):
                    self.ev(st.value, env)
            elif isinstance(st, ast.Assign) and len(st.targets) == 1 and isinstance(st.targets[0], ast.Name):
                env[st.targets[0].id] = self.ev(st.value, env)
            elif isinstance(st, ast.AnnAssign) and isinstance(st.target, ast.Name) and st.value is not None:
                env[st.target.id] = self.ev(st.value, env)
            elif isinstance(st, ast.AugAssign) and isinstance(st.target, ast.Name) and isinstance(st.op, ast.Add):
                env[st.target.id] = self.add(env[st.target.id], self.ev(st.value, env))
            elif isinstance(st, ast.If):
                self.block(st.body if self.truth(self.ev(st.test, env)) else st.orelse, env)
            elif isinstance(st, ast.For) and isinstance(st.target, ast.Name) and not st.orelse:
                for v in list(self.ev(st.iter, env)):
                    env[st.target.id] = v
                    self.block(st.body, env)
            elif isinstance(st, ast.Return):
                raise _Return(self.ev(st.value, env) if st.value is not None else None)
            elif isinstance(st, ast.Pass):
                pass
            else:
                raise NotEncodable(f"statement {type(st).__name__} at line {st.lineno}")

    def truth(self, v: Any) -> bool:
        if isinstance(v, SymStr):
            return bool(X.SymBool(v.term != z3.StringVal("")))
        return bool(v)

    def add(self, a: Any, b: Any) -> Any:
        if isinstance(a, SymStr) or isinstance(b, SymStr):
            return SymStr(z3.Concat(_s(a), _s(b)))
        return a + b

    def comp(self, gens: list[ast.comprehension], env: dict[str, Any], emit: Callable[[dict[str, Any]], None]) -> None:
        if not gens:
            emit(env)
            return
        g = gens[0]
        if not isinstance(g.target, ast.Name) or g.is_async:
            raise NotEncodable("comprehension target")
        for v in list(self.ev(g.iter, env)):
            e2 = dict(env)
            e2[g.target.id] = v
            if all(self.truth(self.ev(c, e2)) for c in g.ifs):
                self.comp(gens[1:], e2, emit)

    def ev(self, n: ast.AST, env: dict[str, Any]) -> Any:
        if isinstance(n, ast.Constant):
            return n.value
        if isinstance(n, ast.Name):
            if n.id in env:
                return env[n.id]
            if n.id in self.funcs:
                return ("func", n.id)
            if n.id in self.ext:
                return self.ext[n.id]
            if n.id in ("list", "set", "len", "tuple", "frozenset", "dict", "str", "reversed"):
                return {"list": list, "set": set, "len": len, "tuple": tuple, "frozenset": frozenset,
                        "dict": dict, "str": str, "reversed": reversed}[n.id]
            raise NotEncodable(f"name {n.id}")
        if isinstance(n, ast.Attribute):
            base = self.ev(n.value, env)
            if isinstance(base, str) and n.attr == "join":
                return ("join", base)
            if isinstance(base, SymStr):
                raise NotEncodable(f"string method .{n.attr} on a symbolic string")
            return getattr(base, n.attr)
        if isinstance(n, ast.Subscript):
            base = self.ev(n.value, env)
            return base[self.ev(n.slice, env)]
        if isinstance(n, ast.BinOp) and isinstance(n.op, ast.Add):
            return self.add(self.ev(n.left, env), self.ev(n.right, env))
        if isinstance(n, ast.JoinedStr):
            acc: Any = ""
            for part in n.values:
                if isinstance(part, ast.Constant):
                    acc = self.add(acc, part.value)
                elif isinstance(part, ast.FormattedValue) and part.format_spec is None and part.conversion == -1:
                    v = self.ev(part.value, env)
                    acc = self.add(acc, v if isinstance(v, (str, SymStr)) else str(v))
                else:
                    raise NotEncodable("format spec in f-string")
            return acc
        if isinstance(n, ast.Compare) and len(n.ops) == 1:
            a, b = self.ev(n.left, env), self.ev(n.comparators[0], env)
            op = n.ops[0]
            if isinstance(op, ast.In):
                return a in b
            if isinstance(op, ast.NotIn):
                return a not in b
            if isinstance(op, ast.Eq):
                return a == b
            if isinstance(op, ast.NotEq):
                return a != b
            if isinstance(op, ast.Is):
                return a is b
            if isinstance(op, ast.IsNot):
                return a is not b
            if isinstance(a, SymStr) or isinstance(b, SymStr):
                raise NotEncodable("ordering comparison on symbolic strings")
            return {ast.Lt: a < b, ast.LtE: a <= b, ast.Gt: a > b, ast.GtE: a >= b}[type(op)]
        if isinstance(n, ast.BoolOp):
            vals = n.values
            if isinstance(n.op, ast.And):
                v: Any = True
                for x in vals:
                    v = self.ev(x, env)
                    if not self.truth(v):
                        return v
                return v
            v = False
            for x in vals:
                v = self.ev(x, env)
                if self.truth(v):
                    return v
            return v
        if isinstance(n, ast.UnaryOp) and isinstance(n.op, ast.Not):
            return not self.truth(self.ev(n.operand, env))
        if isinstance(n, ast.IfExp):
            return self.ev(n.body if self.truth(self.ev(n.test, env)) else n.orelse, env)
        if isinstance(n, (ast.List, ast.Tuple)):
            vals = [self.ev(e, env) for e in n.elts]
            return vals if isinstance(n, ast.List) else tuple(vals)
        if isinstance(n, (ast.GeneratorExp, ast.ListComp, ast.SetComp)):
            out: list[Any] = []
            self.comp(n.generators, env, lambda e2: out.append(self.ev(n.elt, e2)))  # type: ignore[attr-defined]
            if isinstance(n, ast.SetComp):
                s: set[Any] = set()
                for x in out:
                    s.add(x)  # equality of symbolic members forks paths
                return s
            return out
        if isinstance(n, ast.Call):
            fn = self.ev(n.func, env)
            args = [self.ev(a, env) for a in n.args]
            kw = {k.arg: self.ev(k.value, env) for k in n.keywords if k.arg}
            if isinstance(fn, tuple) and fn[0] == "func":
                return self.call(fn[1], args, kw)
            if isinstance(fn, tuple) and fn[0] == "join":
                parts = list(args[0])
                acc2: Any = ""
                for i, p in enumerate(parts):
                    if i:
                        acc2 = self.add(acc2, fn[1])
                    acc2 = self.add(acc2, p)
                return acc2
            if fn in (list, tuple, len, set, frozenset, reversed):
                if fn in (set, frozenset):
                    s2: set[Any] = set()
                    for x in (args[0] if args else []):
                        s2.add(x)
                    return s2 if fn is set else frozenset(s2)
                return fn(*args)
            if callable(fn):
                return fn(*args, **kw)
            raise NotEncodable(f"call of {fn!r}")
        raise NotEncodable(f"expression {type(n).__name__} at line {getattr(n, 'lineno', '?')}")
