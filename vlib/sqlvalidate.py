"""Differential validation of the model store / SQL evaluator against real SQLite.

The REAL SQLDataHolder methods are run twice on seeded random small stores - once with a real
in-memory SQLite session, once with ``ModelSession`` - and every observable is compared: tables
after ingestion (with duplicates and random batch sizes), after each cleaning step, the result
of find_unique_graphs and the streamed traces.  A disagreement makes every check that relies on
the model inconclusive (exit 2); it is never a verdict about /repo.
"""
from __future__ import annotations

import logging
import random
from typing import Any

import sqlalchemy as sa

from vlib import modelstore as M

from tel2puml.otel_to_pv.config import SQLDataHolderConfig
from tel2puml.otel_to_pv.data_holders.base import DataHolder
from tel2puml.otel_to_pv.data_holders.sql_data_holder import sql_dataholder as sdh
from tel2puml.otel_to_pv.data_holders.sql_data_holder.data_model import Base, JobHash, NODE_ASSOCIATION, NodeModel
from tel2puml.otel_to_pv.otel_to_pv_types import OTelEvent

try:
    import tqdm as _tqdm
    _tqdm.tqdm.monitor_interval = 0
except Exception:  # pragma: no cover
    pass


def quiet_tqdm(it: Any = None, **_k: Any) -> Any:
    return it


def forget_temp_table() -> None:
    """A new process starts with fresh table metadata; emulate that between runs in one process."""
    t = Base.metadata.tables.get("temp_root_nodes")
    if t is not None:
        Base.metadata.remove(t)


def model_holder(store: M.Store, batch_size: int, time_buffer: int) -> sdh.SQLDataHolder:
    """A REAL SQLDataHolder (its own __init__ runs, so every attribute it declares exists) whose session is the model
    session.  The constructor opens a throw-away in-memory SQLite engine; that part runs outside CrossHair tracing."""
    from vlib.core import untraced

    def make() -> sdh.SQLDataHolder:
        h = sdh.SQLDataHolder(SQLDataHolderConfig(db_uri="sqlite:///:memory:", batch_size=batch_size, time_buffer=time_buffer))
        h.session.close()
        h.engine.dispose()
        return h
    h = untraced(make)
    h.session = M.ModelSession(store)  # type: ignore[assignment]
    return h


def real_holder(batch_size: int, time_buffer: int, uri: str = "sqlite:///:memory:") -> sdh.SQLDataHolder:
    return sdh.SQLDataHolder(SQLDataHolderConfig(db_uri=uri, batch_size=batch_size, time_buffer=time_buffer))


def dump_real(h: sdh.SQLDataHolder) -> dict[str, Any]:
    with h.session as s:
        nodes = [tuple(getattr(n, c) for c in M.NODE_COLS[1:]) for n in s.query(NodeModel).order_by(NodeModel.id).all()]
        assoc = sorted(s.execute(sa.select(NODE_ASSOCIATION.c.parent_id, NODE_ASSOCIATION.c.child_id)).all())
        hashes = sorted(s.execute(sa.select(JobHash.job_id, JobHash.job_name, JobHash.job_hash)).all())
    return {"nodes": nodes, "assoc": [tuple(a) for a in assoc], "hashes": [tuple(x) for x in hashes]}


def dump_model(store: M.Store) -> dict[str, Any]:
    return {"nodes": [tuple(r[c] for c in M.NODE_COLS[1:]) for r in store.tables["nodes"]],
            "assoc": sorted((r["parent_id"], r["child_id"]) for r in store.tables["NODE_ASSOCIATION"]),
            "hashes": sorted((r["job_id"], r["job_name"], r["job_hash"]) for r in store.tables["job_hashes"])}


def random_events(rng: random.Random) -> list[OTelEvent]:
    n = rng.randint(0, 7)
    ids = [f"e{i}" for i in range(n)]
    evs = []
    for i in range(n):
        eid = ids[i] if rng.random() > 0.25 or i == 0 else rng.choice(ids[:i])  # duplicates
        r = rng.random()
        parent = None if r < 0.35 else (rng.choice(ids) if r < 0.85 else "missing")
        if parent == eid:
            parent = None
        s = rng.randint(0, 20)
        evs.append(OTelEvent(job_name=rng.choice(["A", "B"]), job_id=rng.choice(["j1", "j2", "j3"]),
                             event_type=rng.choice(["x", "y"]), event_id=eid, start_timestamp=s,
                             end_timestamp=s + rng.randint(0, 5), application_name="app",
                             parent_event_id=parent, child_event_ids=None))
    return evs


def stream_dump(h: sdh.SQLDataHolder, flt: Any) -> list[Any]:
    out = []
    for name, gen in h.stream_data(flt):
        out.append((name, [sorted((e.event_id, e.job_id, e.parent_event_id, tuple(sorted(e.child_event_ids or [])))
                                  for e in job) for job in gen]))
    return out


def one_round(rng: random.Random) -> list[str]:
    problems: list[str] = []
    evs = random_events(rng)
    bs = rng.choice([1, 2, 3, 50])
    real = real_holder(bs, 0)
    store = M.Store()
    model = model_holder(store, bs, 0)
    saved = sdh.tqdm
    sdh.tqdm = quiet_tqdm  # type: ignore[assignment]
    try:
        outcomes = []
        for h in (real, model):
            try:
                with h:
                    for e in evs:
                        h.save_data(e.model_copy())
                outcomes.append(None)
            except Exception as e:  # noqa
                outcomes.append(type(e).__name__)
        if outcomes[0] != outcomes[1]:
            # ORM object-state effects after a failed flush are not modelled (documented); skip such rounds
            if outcomes[0] in ("DetachedInstanceError", "InvalidRequestError") or outcomes[1] is None:
                return ["skip:" + str(outcomes[0])]
            problems.append(f"ingestion outcome differs: real={outcomes[0]} model={outcomes[1]} events={evs}")
            return problems
        if outcomes[0] is not None:
            return []
        if dump_real(real) != dump_model(store):
            problems.append(f"tables differ after ingestion: {dump_real(real)} vs {dump_model(store)}")
            return problems
        lo, hi = sorted([rng.randint(0, 25), rng.randint(0, 25)])
        for h in (real, model):
            h._min_timestamp, h._max_timestamp = lo, hi
        for step in ("remove_inconsistent_jobs", "remove_jobs_outside_of_time_window", "update_job_names_by_root_span"):
            r1 = r2 = None
            try:
                getattr(real, step)()
            except Exception as e:  # noqa
                r1 = type(e).__name__
            try:
                getattr(model, step)()
            except Exception as e:  # noqa
                r2 = type(e).__name__
            if r1 != r2:
                problems.append(f"{step}: real raised {r1}, model raised {r2}")
                return problems
            a, b = dump_real(real), dump_model(store)
            if step == "update_job_names_by_root_span":
                # several roots in one trace: the name is unspecified; compare only single-root traces
                def single(d: dict[str, Any]) -> Any:
                    roots: dict[str, int] = {}
                    for n in d["nodes"]:
                        if n[7] is None:
                            roots[n[1]] = roots.get(n[1], 0) + 1
                    return [n for n in d["nodes"] if roots.get(n[1], 0) <= 1]
                if single(a) != single(b) or a["assoc"] != b["assoc"]:
                    problems.append(f"{step}: tables differ {a} vs {b}")
                    return problems
                multi = any(True for n in a["nodes"]) and single(a) != a["nodes"]
                if multi:
                    return []
            elif a != b:
                problems.append(f"{step}: tables differ {a} vs {b}")
                return problems
        forget_temp_table()
        try:
            u1: Any = real.find_unique_graphs()
        except Exception as e:  # noqa
            u1 = type(e).__name__
        forget_temp_table()
        try:
            u2: Any = model.find_unique_graphs()
        except Exception as e:  # noqa
            u2 = type(e).__name__
        forget_temp_table()
        if isinstance(u1, str) or isinstance(u2, str):
            if u1 != u2:
                problems.append(f"find_unique_graphs: real={u1} model={u2}")
            return problems
        a, b = dump_real(real), dump_model(store)
        if a["hashes"] != b["hashes"]:
            problems.append(f"job hashes differ {a['hashes']} vs {b['hashes']}")
            return problems
        hmap = {jid: (name, hsh) for jid, name, hsh in a["hashes"]}

        def classes(u: dict[str, set[str]]) -> Any:
            return sorted((n, sorted(hmap[j][1] for j in js)) for n, js in u.items())
        if classes(u1) != classes(u2):
            problems.append(f"unique graph classes differ {u1} vs {u2}")
            return problems
        for flt in (None, u1):
            s1, s2 = stream_dump(real, flt), stream_dump(model, flt)
            if s1 != s2:
                problems.append(f"stream_data differs (filter={flt}): {s1} vs {s2}")
                return problems
    finally:
        sdh.tqdm = saved
        try:
            real.session.close()
            real.engine.dispose()
        except Exception:  # pragma: no cover
            pass
    return problems


def validate(seed: int = 0, rounds: int = 60) -> tuple[int, list[str]]:
    logging.disable(logging.CRITICAL)
    rng = random.Random(1000 + seed)
    bad: list[str] = []
    done = 0
    try:
        for _ in range(rounds):
            p = one_round(rng)
            if p and p[0].startswith("skip:"):
                continue
            done += 1
            bad += p
    finally:
        logging.disable(logging.NOTSET)
    return done, bad


class _SAProxy:
    """`sa` as seen by the repository module, with schema-object construction run outside CrossHair tracing
    (Table.__new__ is wrapped by decorators whose closures CrossHair's enforcement layer cannot inspect).
    Only DDL object construction is affected; no data flows through it."""

    def __init__(self, real: Any):
        self._real = real

    def __getattr__(self, name: str) -> Any:
        v = getattr(self._real, name)
        if name in ("Table", "Column"):
            from vlib.sqlsem import untraced

            def make(*a: Any, **k: Any) -> Any:
                return untraced(lambda: v(*a, **k))
            return make
        return v


def install_sa_proxy() -> None:
    if not isinstance(sdh.sa, _SAProxy):
        sdh.sa = _SAProxy(sdh.sa)  # type: ignore[assignment]
