"""jqsym: semantics of the jq subset that json_jq_converter emits, over JSON values whose string leaves may be
symbolic (vlib.minipy.SymStr: z3 String terms; equality forks paths through vlib.symexec).

Used by C13 part B (translation validation of the generated extraction program): the REAL converter produces the
program text for a mapping; the program is parsed and evaluated here over a document skeleton with symbolic string
leaves, next to a reference written from docs/user/json_data_converter_HOWTO.md; z3 decides whether the two
outputs can differ.  With plain Python strings the same evaluator is a concrete jq-subset interpreter, which is
compared with the real jq on every run (validation of this semantics) and used to replay counterexamples.
"""
from __future__ import annotations

import json
import re
from typing import Any, Optional

from vlib.minipy import SymStr


import json, re
class JQError(Exception): pass
TOK = re.compile(r'\s*(?:(?P<str>"(?:[^"\\]|\\.)*")|(?P<num>\d+(?:\.\d+)?)|(?P<var>\$[A-Za-z_][A-Za-z0-9_]*)|(?P<field>\.[A-Za-z_][A-Za-z0-9_]*)|(?P<op>//|==|!=|[.\[\](){}|,:+;])|(?P<id>[A-Za-z_][A-Za-z0-9_]*))')
def tokenize(s):
    out, i = [], 0
    s = s.rstrip()
    while i < len(s):
        m = TOK.match(s, i)
        if not m: raise SyntaxError(s[i:i+20])
        k = m.lastgroup; out.append((k, m.group(k))); i = m.end()
    return out
class P:
    def __init__(self, toks): self.t, self.i = toks, 0
    def peek(self, n=0): return self.t[self.i+n] if self.i+n < len(self.t) else (None, None)
    def eat(self, v=None, k=None):
        tk = self.peek()
        if (v is not None and tk[1] != v) or (k is not None and tk[0] != k): raise SyntaxError(f"expected {v or k} got {tk} at {self.i}")
        self.i += 1; return tk
    def pipe(self):
        left = self.comma()
        if self.peek() == ('id', 'as'):
            self.eat(); var = self.eat(k='var')[1]; self.eat('|'); body = self.pipe()
            return ('as', left, var, body)
        if self.peek()[1] == '|':
            self.eat(); return ('pipe', left, self.pipe())
        return left
    def comma(self):
        left = self.alt()
        while self.peek()[1] == ',':
            self.eat(); left = ('comma', left, self.alt())
        return left
    def alt(self):
        left = self.and_()
        if self.peek()[1] == '//':
            self.eat(); return ('alt', left, self.alt())
        return left
    def and_(self):
        left = self.cmp()
        while self.peek() in (('id', 'and'), ('id', 'or')):
            op = self.eat()[1]; left = (op, left, self.cmp())
        return left
    def cmp(self):
        left = self.add()
        if self.peek()[1] in ('==', '!='):
            op = self.eat()[1]; return (op, left, self.add())
        return left
    def add(self):
        left = self.post()
        while self.peek()[1] == '+':
            self.eat(); left = ('+', left, self.post())
        return left
    def post(self):
        e = self.primary()
        while True:
            k, v = self.peek()
            if k == 'field': self.eat(); e = ('field', e, v[1:])
            elif v == '.' and self.peek(1)[0] == 'str': self.eat(); e = ('field', e, json.loads(self.eat()[1]))
            elif v == '.' and self.peek(1)[1] == '[' and self.peek(2)[1] == ']': self.eat(); self.eat(); self.eat(); e = ('iter', e)
            elif v == '[' and self.peek(1)[1] == ']': self.eat(); self.eat(); e = ('iter', e)
            else: return e
    def primary(self):
        k, v = self.peek()
        if k == 'field': return ('id',)          # leave the field for post()
        if v == '.':
            if self.peek(1)[0] == 'str' or self.peek(1)[1] == '[': return ('id',)
            self.eat(); return ('id',)
        if k == 'var': self.eat(); return ('var', v)
        if k == 'str': self.eat(); return ('lit', json.loads(v))
        if k == 'num': self.eat(); return ('lit', json.loads(v))
        if v == '(':
            self.eat(); e = self.pipe(); self.eat(')'); return e
        if v == '[':
            self.eat()
            if self.peek()[1] == ']': self.eat(); return ('lit', [])
            e = self.pipe(); self.eat(']'); return ('collect', e)
        if v == '{':
            self.eat(); ents = []
            while True:
                if self.peek()[1] == '(':
                    self.eat(); ke = self.pipe(); self.eat(')')
                else: ke = ('lit', json.loads(self.eat(k='str')[1]))
                self.eat(':'); ve = self.alt(); ents.append((ke, ve))
                if self.peek()[1] == ',': self.eat(); continue
                break
            self.eat('}'); return ('object', ents)
        if (k, v) == ('id', 'if'):
            self.eat(); c = self.pipe(); self.eat('then'); a = self.pipe(); self.eat('else'); b = self.pipe(); self.eat('end'); return ('if', c, a, b)
        if (k, v) == ('id', 'try'):
            self.eat(); body = self.post(); h = None
            if self.peek() == ('id', 'catch'): self.eat(); h = self.post()
            return ('try', body, h)
        if (k, v) == ('id', 'null'): self.eat(); return ('lit', None)
        if k == 'id':
            self.eat(); args = []
            if self.peek()[1] == '(':
                self.eat(); args.append(self.pipe())
                while self.peek()[1] == ';': self.eat(); args.append(self.pipe())
                self.eat(')')
            return ('call', v, args)
        raise SyntaxError(f"unexpected {k} {v} at {self.i}")
def parse(s):
    p = P(tokenize(s)); e = p.pipe()
    if p.i != len(p.t): raise SyntaxError(f"trailing {p.t[p.i:p.i+5]}")
    return e


# --------------------------------------------------------------------------
# values: None, bool, int/float, str | SymStr, list, dict (concrete keys), JObj (object built by the program: keys may be symbolic)
# --------------------------------------------------------------------------
class JObj:
    def __init__(self, pairs: list[tuple[Any, Any]]):
        self.pairs = pairs

    def get(self, k: Any) -> Any:
        out = None
        for kk, v in self.pairs:   # later entries win (jq object addition)
            if kk == k:            # SymStr == str forks
                out = v
        return out

    def merged(self, other: "JObj") -> "JObj":
        return JObj(self.pairs + other.pairs)


def is_str(v: Any) -> bool:
    return isinstance(v, (str, SymStr))


def truthy(v: Any) -> bool:
    return v is not None and v is not False


def tostring(v: Any) -> Any:
    if is_str(v):
        return v
    if isinstance(v, JObj):
        raise JQError("tostring of a constructed object is outside the modelled subset")
    return json.dumps(v, separators=(",", ":"))


def jeq(a: Any, b: Any) -> bool:
    if is_str(a) and is_str(b):
        return bool(a == b)
    if is_str(a) or is_str(b):
        return False
    if isinstance(a, bool) or isinstance(b, bool) or a is None or b is None:
        return a is b if (isinstance(a, bool) or isinstance(b, bool)) else (a is None and b is None)
    if isinstance(a, (int, float)) and isinstance(b, (int, float)):
        return a == b
    if isinstance(a, list) and isinstance(b, list):
        return len(a) == len(b) and all(jeq(x, y) for x, y in zip(a, b))
    if isinstance(a, dict) and isinstance(b, dict):
        return set(a) == set(b) and all(jeq(a[k], b[k]) for k in a)
    return False


def plus(a: Any, b: Any) -> Any:
    if a is None:
        return b
    if b is None:
        return a
    if isinstance(a, bool) or isinstance(b, bool):
        raise JQError("bool add")
    if isinstance(a, (int, float)) and isinstance(b, (int, float)):
        return a + b
    if is_str(a) and is_str(b):
        return a + b
    if isinstance(a, list) and isinstance(b, list):
        return a + b
    if isinstance(a, (dict, JObj)) and isinstance(b, (dict, JObj)):
        pa = a.pairs if isinstance(a, JObj) else list(a.items())
        pb = b.pairs if isinstance(b, JObj) else list(b.items())
        return JObj(pa + pb)
    raise JQError("cannot add")


def flatten(a: list[Any]) -> list[Any]:
    out: list[Any] = []
    for x in a:
        if isinstance(x, list):
            out.extend(flatten(x))
        else:
            out.append(x)
    return out


def ev(e: Any, inp: Any, env: dict[str, Any]) -> Any:
    t = e[0]
    if t == 'id':
        yield inp
    elif t == 'var':
        yield env[e[1]]
    elif t == 'lit':
        yield e[1]
    elif t == 'field':
        for v in ev(e[1], inp, env):
            if v is None:
                yield None
            elif isinstance(v, dict):
                yield v.get(e[2])
            elif isinstance(v, JObj):
                yield v.get(e[2])
            else:
                raise JQError(f"Cannot index {type(v).__name__} with {e[2]}")
    elif t == 'iter':
        for v in ev(e[1], inp, env):
            if isinstance(v, list):
                yield from v
            elif isinstance(v, dict):
                yield from v.values()
            else:
                raise JQError("Cannot iterate")
    elif t == 'pipe':
        for v in ev(e[1], inp, env):
            yield from ev(e[2], v, env)
    elif t == 'as':
        for v in ev(e[1], inp, env):
            yield from ev(e[3], inp, {**env, e[2]: v})
    elif t == 'comma':
        yield from ev(e[1], inp, env)
        yield from ev(e[2], inp, env)
    elif t == 'alt':
        got = False
        try:
            for v in ev(e[1], inp, env):
                if truthy(v):
                    got = True
                    yield v
        except JQError:
            pass
        if not got:
            yield from ev(e[2], inp, env)
    elif t in ('and', 'or'):
        for a in ev(e[1], inp, env):
            if t == 'and' and not truthy(a):
                yield False
                continue
            if t == 'or' and truthy(a):
                yield True
                continue
            for b in ev(e[2], inp, env):
                yield truthy(b)
    elif t in ('==', '!='):
        for b in ev(e[2], inp, env):
            for a in ev(e[1], inp, env):
                r = jeq(a, b)
                yield r if t == '==' else not r
    elif t == '+':
        for b in ev(e[2], inp, env):
            for a in ev(e[1], inp, env):
                yield plus(a, b)
    elif t == 'collect':
        yield list(ev(e[1], inp, env))
    elif t == 'object':
        def rec(i: int, acc: list[tuple[Any, Any]]) -> Any:
            if i == len(e[1]):
                yield JObj(list(acc))
                return
            ke, ve = e[1][i]
            for k in ev(ke, inp, env):
                if not is_str(k):
                    raise JQError("Object keys must be strings")
                for v in ev(ve, inp, env):
                    yield from rec(i + 1, acc + [(k, v)])
        yield from rec(0, [])
    elif t == 'if':
        for c in ev(e[1], inp, env):
            yield from ev(e[2] if truthy(c) else e[3], inp, env)
    elif t == 'try':
        # jq's try stops at the first error but keeps the outputs produced before it
        try:
            for v in ev(e[1], inp, env):
                yield v
        except JQError as x:
            if e[2] is not None:
                yield from ev(e[2], str(x), env)
    elif t == 'call':
        name, args = e[1], e[2]
        if name == 'tostring':
            yield tostring(inp)
        elif name == 'add':
            if not isinstance(inp, list):
                raise JQError("add on non-array")
            acc: Any = None
            for x in inp:
                acc = plus(acc, x)
            yield acc
        elif name == 'flatten':
            if not isinstance(inp, list):
                raise JQError("flatten")
            yield flatten(inp)
        elif name in ('any', 'all'):
            if not isinstance(inp, (list, dict)):
                raise JQError("Cannot iterate")
            items = inp if isinstance(inp, list) else list(inp.values())
            res = [truthy(r) for x in items for r in ev(args[0], x, env)]
            yield any(res) if name == 'any' else all(res)
        elif name == 'join':
            for sep in ev(args[0], inp, env):
                if not isinstance(inp, list):
                    raise JQError("join")
                acc2: Any = ""
                for i, x in enumerate(inp):
                    if i:
                        acc2 = acc2 + sep
                    if x is None:
                        part: Any = ""
                    elif is_str(x):
                        part = x
                    elif isinstance(x, (int, float, bool)):
                        part = tostring(x)
                    else:
                        raise JQError("Cannot join")
                    acc2 = acc2 + part
                yield acc2
        elif name == 'select':
            for c in ev(args[0], inp, env):
                if truthy(c):
                    yield inp
        else:
            raise JQError(f"function {name} is outside the modelled subset")
    else:
        raise JQError(f"construct {t} is outside the modelled subset")


def run_program(prog_ast: Any, doc: Any) -> list[Any]:
    """All outputs of the program on doc; records are returned as plain dicts field -> value."""
    out = []
    for r in ev(prog_ast, doc, {}):
        if isinstance(r, JObj):
            d: dict[str, Any] = {}
            for k, v in r.pairs:
                d[k] = v
            out.append(d)
        else:
            out.append(r)
    return out


# --------------------------------------------------------------------------
# reference: the flattening semantics of docs/user/json_data_converter_HOWTO.md
# --------------------------------------------------------------------------
def nav(v: Any, path: str) -> Any:
    """follow a dotted path through nested objects; anything absent or not an object gives null"""
    for seg in (path.split(".") if path else []):
        if isinstance(v, dict):
            v = v.get(seg)
        else:
            return None
    return v


def normalise(spec: dict[str, Any]) -> list[list[tuple[str, Optional[str], Optional[str]]]]:
    """field spec -> list (concatenation order) of lists (priority order) of (key_path, key_value, value_path)"""
    kps, kvs, vps = spec["key_paths"], spec.get("key_value"), spec.get("value_paths")
    out = []
    for i, kp in enumerate(kps):
        alts_k = kp if isinstance(kp, list) else [kp]
        kv = kvs[i] if kvs else None
        vp = vps[i] if vps else None
        alts_kv = kv if isinstance(kv, list) else [kv] * len(alts_k)
        alts_vp = vp if isinstance(vp, list) else [vp] * len(alts_k)
        out.append(list(zip(alts_k, alts_kv, alts_vp)))
    return out


def levels_of(mapping: dict[str, dict[str, Any]]) -> list[tuple[str, ...]]:
    """array nesting prefixes that are iterated (one record per element), in order of first appearance"""
    lv: list[tuple[str, ...]] = []
    for spec in mapping.values():
        for alts in normalise(spec):
            for kp, kv, _vp in alts:
                segs = kp.split(".[].")
                arrays = segs[:-1] if kv is None else segs[:-2]
                for n in range(1, len(arrays) + 1):
                    p = tuple(arrays[:n])
                    if p not in lv:
                        lv.append(p)
    return lv


def reference(mapping: dict[str, dict[str, Any]], doc: Any) -> list[dict[str, Any]]:
    lv = levels_of(mapping)
    # depth-first order of the level tree, children in order of first appearance (document order of nested loops)
    order: list[tuple[str, ...]] = []

    def dfs(prefix: tuple[str, ...]) -> None:
        for p in lv:
            if len(p) == len(prefix) + 1 and p[:-1] == prefix:
                order.append(p)
                dfs(p)
    dfs(())
    records: list[dict[str, Any]] = []

    def bind(i: int, env: dict[tuple[str, ...], Any]) -> None:
        if i == len(order):
            records.append(record(env))
            return
        p = order[i]
        arr = nav(env[p[:-1]], p[-1])
        if isinstance(arr, list):
            for el in arr:                      # one record per element; an empty array gives no record
                bind(i + 1, {**env, p: el})
        elif isinstance(arr, dict):
            for el in arr.values():
                bind(i + 1, {**env, p: el})
        else:                                   # absent / null / not an array: absent values are null
            bind(i + 1, {**env, p: None})

    def value(env: dict[tuple[str, ...], Any], kp: str, kv: Optional[str], vp: Optional[str]) -> Any:
        segs = kp.split(".[].")
        if kv is None:
            return nav(env[tuple(segs[:-1])], segs[-1])
        base = env[tuple(segs[:-2])]
        arr = nav(base, segs[-2])
        if isinstance(arr, dict):
            arr = list(arr.values())
        if not isinstance(arr, list):
            return None
        found: Any = None
        for el in arr:                          # key/value lookup; later entries with the same key win
            if el is not None and not isinstance(el, dict):
                return None                     # malformed attribute array: the lookup as a whole is absent
            k = nav(el, segs[-1])
            if not truthy(k):
                continue
            if not is_str(k):
                return None
            v = nav(el, vp or "")
            if k == kv:
                found = v
        return found

    def record(env: dict[tuple[str, ...], Any]) -> dict[str, Any]:
        rec: dict[str, Any] = {}
        for f, spec in mapping.items():
            parts = []
            for alts in normalise(spec):
                val: Any = None
                for kp, kv, vp in alts:         # priority: first alternative that is present
                    val = value(env, kp, kv, vp)
                    if truthy(val):
                        break
                parts.append(val)
            if spec.get("value_type", "string") == "string":
                if any(p is None for p in parts):
                    rec[f] = None
                else:
                    acc: Any = ""
                    for j, p in enumerate(parts):
                        if j:
                            acc = acc + "_"
                        acc = acc + tostring(p)
                    rec[f] = acc
            else:
                flat = flatten(parts)
                rec[f] = None if (flat and all(x is None for x in flat)) else flat
        return rec
    bind(0, {(): doc})
    return records
