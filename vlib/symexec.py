"""A tiny path-exploring symbolic executor for straight Python over integers.

``SymInt`` wraps a z3 Int term; arithmetic builds terms, comparisons build ``SymBool``;
when Python asks a ``SymBool`` for its truth value (``if``, ``min``, ``max``, ``and``) the
executor consults the current decision prefix, checks feasibility of each side with z3 under the
path condition, and schedules the other side for a later re-execution.  ``explore(fn)`` runs the
REAL function once per feasible path and returns ``[(path_condition, result | exception)]``.

Used where the real code computes values that end up inside SQL statements (time window in
C11/C09): the function itself is executed, nothing is re-implemented.
"""
from __future__ import annotations

from typing import Any, Callable

import z3


class _Run:
    def __init__(self, prefix: list[bool], base: list[Any]):
        self.prefix = prefix
        self.taken: list[bool] = []
        self.pc: list[Any] = list(base)
        self.pending: list[list[bool]] = []


_CUR: list[_Run] = []


def _feasible(cs: list[Any]) -> bool:
    s = z3.Solver()
    s.set("timeout", 20000)
    s.add(cs)
    return str(s.check()) != "unsat"


class SymBool:
    def __init__(self, expr: Any, domain: Any = None):
        """domain: condition under which `expr` is meaningful (a float case split that covers only a declared range);
        it is added to the path condition on BOTH branches, so that the negation of a partial case split is never
        mistaken for 'false'."""
        self.expr = expr
        self.domain = domain

    def __bool__(self) -> bool:
        run = _CUR[-1]
        if self.domain is not None:
            run.pc.append(self.domain)
        i = len(run.taken)
        if i < len(run.prefix):
            d = run.prefix[i]
        else:
            can_t = _feasible(run.pc + [self.expr])
            can_f = _feasible(run.pc + [z3.Not(self.expr)])
            if can_t and can_f:
                run.pending.append(run.taken + [False])
                d = True
            else:
                d = can_t
        run.taken.append(d)
        run.pc.append(self.expr if d else z3.Not(self.expr))
        return d


class NotLinearInt(TypeError):
    """the real code left integer arithmetic (e.g. multiplied by a float): outside what this executor models"""


def _t(x: Any) -> Any:
    if isinstance(x, SymInt):
        return x.expr
    if isinstance(x, bool) or not isinstance(x, int):
        raise NotLinearInt(f"operand {x!r} of type {type(x).__name__} in integer arithmetic")
    return z3.IntVal(x)


def _b(x: Any) -> tuple[Any, Any]:
    if isinstance(x, SymInt):
        return x.lo, x.hi
    return int(x), int(x)


def _iv(op: str, a: tuple[Any, Any], b: tuple[Any, Any]) -> tuple[Any, Any]:
    if None in a or None in b:
        return None, None
    if op == "+":
        return a[0] + b[0], a[1] + b[1]
    if op == "-":
        return a[0] - b[1], a[1] - b[0]
    c = [a[0] * b[0], a[0] * b[1], a[1] * b[0], a[1] * b[1]]
    return min(c), max(c)


class SymInt:
    """z3 Int term with an optional concrete interval [lo, hi] (needed only when the code converts it to a float)"""

    def __init__(self, expr: Any, lo: Any = None, hi: Any = None):
        self.expr, self.lo, self.hi = expr, lo, hi

    def __add__(self, o: Any) -> Any:
        if isinstance(o, (float, SymFloat)):
            return SymFloat.of(self) + o
        return SymInt(self.expr + _t(o), *_iv("+", _b(self), _b(o)))

    def __radd__(self, o: Any) -> Any:
        if isinstance(o, (float, SymFloat)):
            return SymFloat.of(o) + self
        return SymInt(_t(o) + self.expr, *_iv("+", _b(o), _b(self)))

    def __sub__(self, o: Any) -> Any:
        if isinstance(o, (float, SymFloat)):
            return SymFloat.of(self) - o
        return SymInt(self.expr - _t(o), *_iv("-", _b(self), _b(o)))

    def __rsub__(self, o: Any) -> Any:
        if isinstance(o, (float, SymFloat)):
            return SymFloat.of(o) - self
        return SymInt(_t(o) - self.expr, *_iv("-", _b(o), _b(self)))

    def __mul__(self, o: Any) -> Any:
        if isinstance(o, SymInt):
            raise NotLinearInt("symbolic * symbolic is outside the linear fragment")
        if isinstance(o, float):
            return SymFloat.of(self) * o
        if isinstance(o, bool) or not isinstance(o, int):
            raise NotLinearInt(f"multiplication by {o!r} ({type(o).__name__}) leaves integer arithmetic")
        return SymInt(self.expr * o, *_iv("*", _b(self), (o, o)))
    __rmul__ = __mul__

    def __neg__(self) -> "SymInt": return SymInt(-self.expr)
    def __truediv__(self, o: Any) -> Any: raise NotLinearInt("true division leaves integer arithmetic")
    def __rtruediv__(self, o: Any) -> Any: raise NotLinearInt("true division leaves integer arithmetic")
    def __float__(self) -> float: raise NotLinearInt("float() of a symbolic int")
    def __lt__(self, o: Any) -> SymBool: return SymBool(self.expr < _t(o))
    def __le__(self, o: Any) -> SymBool: return SymBool(self.expr <= _t(o))
    def __gt__(self, o: Any) -> SymBool: return SymBool(self.expr > _t(o))
    def __ge__(self, o: Any) -> SymBool: return SymBool(self.expr >= _t(o))
    def __eq__(self, o: Any) -> SymBool: return SymBool(self.expr == _t(o))  # type: ignore[override]
    def __ne__(self, o: Any) -> SymBool: return SymBool(self.expr != _t(o))  # type: ignore[override]
    def __hash__(self) -> int: return hash(self.expr)
    def __repr__(self) -> str: return f"SymInt({self.expr})"


def explore(fn: Callable[[], Any], base: list[Any], max_paths: int = 64) -> list[tuple[list[Any], Any, Any]]:
    """-> [(path_condition, result, exception-or-None)] over every feasible path of fn()."""
    out = []
    work: list[list[bool]] = [[]]
    while work:
        prefix = work.pop()
        run = _Run(prefix, base)
        _CUR.append(run)
        try:
            try:
                res, exc = fn(), None
            except Exception as e:  # noqa
                res, exc = None, e
        finally:
            _CUR.pop()
        out.append((run.pc, res, exc))
        work.extend(run.pending)
        if len(out) > max_paths:
            raise RuntimeError("too many paths")
    return out


# --------------------------------------------------------------------------
# floats: the integer model of binary64 (vlib/ieee_int.py) behind Python's float operators, so that real code
# which drifts into float arithmetic (e.g. `* 1e9`) is still executed faithfully
# --------------------------------------------------------------------------
from fractions import Fraction as _Fr  # noqa: E402

from vlib import ieee_int as _fp  # noqa: E402

FCTX = _fp.Ctx()
FLOAT_EVENTS: list[str] = []   # non-empty iff the executed code used float arithmetic on symbolic ints


class SymFloat:
    """list of (guard, sign, m, q, lo, hi): under guard the value is sign * m * 2**q (m >= 0); lo/hi bound |value|"""

    def __init__(self, cases: list[tuple[Any, int, Any, int, Any, Any]]):
        self.cases = cases

    @staticmethod
    def of(x: Any) -> "SymFloat":
        if isinstance(x, SymFloat):
            return x
        if isinstance(x, SymInt):
            if x.lo is None or x.hi is None or x.lo < 0:
                raise NotLinearInt("float() of a symbolic int without a non-negative interval")
            FLOAT_EVENTS.append(f"int in [{x.lo}, {x.hi}] converted to float")
            rng = z3.And(x.expr >= x.lo, x.expr <= x.hi)   # outside its declared interval the conversion has no case
            return SymFloat([(c.guard, 1, c.m, c.q, c.lo, c.hi) for c in _fp.from_int(FCTX, rng, x.expr, x.lo, x.hi)])
        f = _Fr(float(x))
        k = f.denominator.bit_length() - 1
        return SymFloat([(z3.BoolVal(True), 1 if f >= 0 else -1, z3.IntVal(abs(f.numerator)), -k, abs(f), abs(f))])

    def __mul__(self, o: Any) -> "SymFloat":
        if not isinstance(o, (int, float)) or isinstance(o, bool) or o <= 0:
            raise NotLinearInt("float multiplication by a non-constant or non-positive factor")
        out = []
        for g, sg, m, q, lo, hi in self.cases:
            for c in _fp.mul_const(FCTX, [_fp.FCase(g, m, q, lo, hi)], _Fr(float(o))):
                out.append((c.guard, sg, c.m, c.q, c.lo, c.hi))
        return SymFloat(out)
    __rmul__ = __mul__

    def _addsub(self, o: Any, sub: bool) -> "SymFloat":
        o = SymFloat.of(o)
        out = []
        for g1, s1, m1, q1, lo1, hi1 in self.cases:
            for g2, s2, m2, q2, lo2, hi2 in o.cases:
                s2e = -s2 if sub else s2
                q = min(q1, q2)
                A = s1 * m1 * 2 ** (q1 - q) + s2e * m2 * 2 ** (q2 - q)      # exact sum, in units of 2**q
                g = z3.And(g1, g2)
                hi = hi1 + hi2
                for sign, guard, mag in ((1, z3.And(g, A >= 0), A), (-1, z3.And(g, A < 0), -A)):
                    for c in _fp.rne_rational(FCTX, guard, mag, _Fr(1) / _Fr(2) ** q, _Fr(0), hi):
                        out.append((c.guard, sign, c.m, c.q, c.lo, c.hi))
        return SymFloat(out)

    def __add__(self, o: Any) -> "SymFloat": return self._addsub(o, False)
    def __radd__(self, o: Any) -> "SymFloat": return SymFloat.of(o)._addsub(self, False)
    def __sub__(self, o: Any) -> "SymFloat": return self._addsub(o, True)
    def __rsub__(self, o: Any) -> "SymFloat": return SymFloat.of(o)._addsub(self, True)

    def _cmp(self, o: Any, op: str) -> SymBool:
        o = SymFloat.of(o)
        alts = []
        for g1, s1, m1, q1, _l1, _h1 in self.cases:
            for g2, s2, m2, q2, _l2, _h2 in o.cases:
                q = min(q1, q2)
                a, b = s1 * m1 * 2 ** (q1 - q), s2 * m2 * 2 ** (q2 - q)
                c = {"<": a < b, "<=": a <= b, ">": a > b, ">=": a >= b, "==": a == b, "!=": a != b}[op]
                alts.append(z3.And(g1, g2, c))
        domain = z3.And(z3.Or([c_[0] for c_ in self.cases]), z3.Or([c_[0] for c_ in o.cases]))
        return SymBool(z3.Or(alts), domain)

    def __lt__(self, o: Any) -> SymBool: return self._cmp(o, "<")
    def __le__(self, o: Any) -> SymBool: return self._cmp(o, "<=")
    def __gt__(self, o: Any) -> SymBool: return self._cmp(o, ">")
    def __ge__(self, o: Any) -> SymBool: return self._cmp(o, ">=")

    def real_term(self, fresh: Any) -> tuple[Any, Any]:
        """-> (z3 Real term r, constraint tying r to the cases)"""
        r = fresh
        alts = [z3.And(g, r == sg * z3.ToReal(m) * z3.RealVal(_Fr(2) ** q)) for g, sg, m, q, _lo, _hi in self.cases]
        return r, z3.Or(alts)
