"""A tiny path-exploring symbolic executor for straight Python over integers.

``SymInt`` wraps a z3 Int term; arithmetic builds terms, comparisons build ``SymBool``;
when Python asks a ``SymBool`` for its truth value (``if``, ``min``, ``max``, ``and``) the
executor consults the current decision prefix, checks feasibility of each side with z3 under the
path condition, and schedules the other side for a later re-execution.  ``explore(fn)`` runs the
REAL function once per feasible path and returns ``[(path_condition, result | exception)]``.

Used where the real code computes values that end up inside SQL statements (time window in
C11/C09): the function itself is executed, nothing is re-implemented.
"""
from __future__ import annotations

from typing import Any, Callable

import z3


class _Run:
    def __init__(self, prefix: list[bool], base: list[Any]):
        self.prefix = prefix
        self.taken: list[bool] = []
        self.pc: list[Any] = list(base)
        self.pending: list[list[bool]] = []


_CUR: list[_Run] = []


def _feasible(cs: list[Any]) -> bool:
    s = z3.Solver()
    s.set("timeout", 20000)
    s.add(cs)
    return str(s.check()) != "unsat"


class SymBool:
    def __init__(self, expr: Any):
        self.expr = expr

    def __bool__(self) -> bool:
        run = _CUR[-1]
        i = len(run.taken)
        if i < len(run.prefix):
            d = run.prefix[i]
        else:
            can_t = _feasible(run.pc + [self.expr])
            can_f = _feasible(run.pc + [z3.Not(self.expr)])
            if can_t and can_f:
                run.pending.append(run.taken + [False])
                d = True
            else:
                d = can_t
        run.taken.append(d)
        run.pc.append(self.expr if d else z3.Not(self.expr))
        return d


class NotLinearInt(TypeError):
    """the real code left integer arithmetic (e.g. multiplied by a float): outside what this executor models"""


def _t(x: Any) -> Any:
    if isinstance(x, SymInt):
        return x.expr
    if isinstance(x, bool) or not isinstance(x, int):
        raise NotLinearInt(f"operand {x!r} of type {type(x).__name__} in integer arithmetic")
    return z3.IntVal(x)


class SymInt:
    def __init__(self, expr: Any):
        self.expr = expr

    def __add__(self, o: Any) -> "SymInt": return SymInt(self.expr + _t(o))
    def __radd__(self, o: Any) -> "SymInt": return SymInt(_t(o) + self.expr)
    def __sub__(self, o: Any) -> "SymInt": return SymInt(self.expr - _t(o))
    def __rsub__(self, o: Any) -> "SymInt": return SymInt(_t(o) - self.expr)

    def __mul__(self, o: Any) -> "SymInt":
        if isinstance(o, SymInt):
            raise NotLinearInt("symbolic * symbolic is outside the linear fragment")
        if isinstance(o, bool) or not isinstance(o, int):
            raise NotLinearInt(f"multiplication by {o!r} ({type(o).__name__}) leaves integer arithmetic")
        return SymInt(self.expr * o)
    __rmul__ = __mul__

    def __neg__(self) -> "SymInt": return SymInt(-self.expr)
    def __truediv__(self, o: Any) -> Any: raise NotLinearInt("true division leaves integer arithmetic")
    def __rtruediv__(self, o: Any) -> Any: raise NotLinearInt("true division leaves integer arithmetic")
    def __float__(self) -> float: raise NotLinearInt("float() of a symbolic int")
    def __lt__(self, o: Any) -> SymBool: return SymBool(self.expr < _t(o))
    def __le__(self, o: Any) -> SymBool: return SymBool(self.expr <= _t(o))
    def __gt__(self, o: Any) -> SymBool: return SymBool(self.expr > _t(o))
    def __ge__(self, o: Any) -> SymBool: return SymBool(self.expr >= _t(o))
    def __eq__(self, o: Any) -> SymBool: return SymBool(self.expr == _t(o))  # type: ignore[override]
    def __ne__(self, o: Any) -> SymBool: return SymBool(self.expr != _t(o))  # type: ignore[override]
    def __hash__(self) -> int: return hash(self.expr)
    def __repr__(self) -> str: return f"SymInt({self.expr})"


def explore(fn: Callable[[], Any], base: list[Any], max_paths: int = 64) -> list[tuple[list[Any], Any, Any]]:
    """-> [(path_condition, result, exception-or-None)] over every feasible path of fn()."""
    out = []
    work: list[list[bool]] = [[]]
    while work:
        prefix = work.pop()
        run = _Run(prefix, base)
        _CUR.append(run)
        try:
            try:
                res, exc = fn(), None
            except Exception as e:  # noqa
                res, exc = None, e
        finally:
            _CUR.pop()
        out.append((run.pc, res, exc))
        work.extend(run.pending)
        if len(out) > max_paths:
            raise RuntimeError("too many paths")
    return out
