"""Case-split integer model of IEEE-754 round-to-nearest-even arithmetic.

A symbolic non-negative float is a list of cases ``FCase(guard, m, q, lo, hi)``
meaning: under ``guard`` the value is exactly ``m * 2**q`` (``m`` a z3 Int term
>= 0, ``q`` a concrete int).  ``lo``/``hi`` are concrete ``Fraction`` bounds of
the value, used only to enumerate which binades can occur.  Every operation
with at most one symbolic operand per factor is exact integer arithmetic plus
the round-half-even condition, so all constraints stay linear.

The library is parametric in the precision ``p`` (53 for binary64) so that it
can be cross-checked against z3's FP theory on a small format.
"""
from __future__ import annotations

import math
from dataclasses import dataclass
from fractions import Fraction as Fr
from typing import Any, Optional

import z3


@dataclass
class FCase:
    guard: Any
    m: Any
    q: int
    lo: Fr
    hi: Fr


class Ctx:
    def __init__(self, p: int = 53) -> None:
        self.p = p
        self.n = 0
        self.roundings: list = []  # (m, X, dd, q): m == rhe(X/dd), value m*2**q

    def fresh(self, prefix: str = "v") -> Any:
        self.n += 1
        return z3.Int(f"{prefix}!{self.n}")


def rhe(m: Any, A: Any, B: int) -> Any:
    """m == round_half_even(A / B) for a z3 Int term A >= 0 and a python int B > 0."""
    return z3.And(
        2 * m * B >= 2 * A - B,
        2 * m * B <= 2 * A + B,
        z3.Implies(2 * m * B == 2 * A + B, m % 2 == 0),
        z3.Implies(2 * m * B == 2 * A - B, m % 2 == 0),
    )


def _floor_log2(x: Fr) -> int:
    assert x > 0
    e = math.floor(math.log2(x)) if x < Fr(2) ** 1000 else x.numerator.bit_length() - x.denominator.bit_length()
    while Fr(2) ** e > x:
        e -= 1
    while Fr(2) ** (e + 1) <= x:
        e += 1
    return e


def binades(lo: Fr, hi: Fr) -> list[int]:
    """Exponents e with [2^e, 2^(e+1)) meeting [lo, hi]; lo > 0."""
    if lo > hi:
        return []
    return list(range(_floor_log2(lo), _floor_log2(hi) + 1))


def is_pow2(n: int) -> bool:
    return n > 0 and n & (n - 1) == 0


def rne_rational(ctx: Ctx, guard: Any, A: Any, B: Fr, lo: Fr, hi: Fr) -> list[FCase]:
    """Cases for RNE(A / B): A z3 Int term >= 0, B a positive Fraction, lo <= A/B <= hi."""
    p = ctx.p
    out: list[FCase] = []
    num_scale, den = B.denominator, B.numerator  # A/B == A*num_scale/den
    if lo < 0:
        lo = Fr(0)
    if hi < lo:
        return out
    if lo == 0:
        out.append(FCase(z3.And(guard, A == 0), z3.IntVal(0), 0, Fr(0), Fr(0)))
        lo = Fr(num_scale, den)  # smallest positive value (A = 1)
        guard = z3.And(guard, A >= 1)
        if hi < lo:
            return out
    exact_upto: Optional[Fr] = None
    if is_pow2(den):
        # value = (A*num_scale) * 2**-s : exact whenever the integer numerator fits in p bits
        s = den.bit_length() - 1
        M = A * num_scale
        top = Fr(2) ** p / den  # value at which the numerator reaches 2**p
        out.append(FCase(z3.And(guard, M < 2 ** p), M, -s, lo, min(hi, top)))
        if hi < top:
            return out
        lo = max(lo, top)
        guard = z3.And(guard, M >= 2 ** p)
    for e in binades(lo, hi):
        q = e - (p - 1)
        d = Fr(den) * Fr(2) ** q  # m = rhe(A*num_scale / d)
        ns, dd = num_scale * d.denominator, d.numerator
        m = ctx.fresh("m")
        X = A * ns  # X/dd is the unrounded significand
        # m >= 2**(p-1) and m <= 2**p follow from the two range constraints on X; they are stated
        # explicitly because they help the solver (redundant, hence sound)
        g = z3.And(guard, X >= dd * 2 ** (p - 1), X < dd * 2 ** p, rhe(m, X, dd),
                   m >= 2 ** (p - 1), m <= 2 ** p)
        ctx.roundings.append((m, X, dd, q))
        # interval of the ROUNDED value m*2**q: the unrounded value lies in [lo, hi] within this binade and rounding moves
        # it by at most half an ulp (2**(q-1)); a full ulp of slack keeps later binade enumerations complete at boundaries
        ulp = Fr(2) ** q
        out.append(FCase(g, m, q, max(Fr(0), max(lo, Fr(2) ** e) - ulp), min(hi, Fr(2) ** (e + 1)) + ulp))
    return out


def from_int(ctx: Ctx, guard: Any, n: Any, lo: int, hi: int) -> list[FCase]:
    """float(n) for a z3 Int term n with lo <= n <= hi, lo >= 0."""
    return rne_rational(ctx, guard, n, Fr(1), Fr(lo), Fr(hi))


def const(c: float) -> Fr:
    return Fr(c)  # exact value of the double


def div_const(ctx: Ctx, xs: list[FCase], c: Fr) -> list[FCase]:
    out: list[FCase] = []
    for x in xs:
        # m*2^q / c
        out += rne_rational(ctx, x.guard, x.m, c / Fr(2) ** x.q, x.lo / c, x.hi / c)
    return out


def mul_const(ctx: Ctx, xs: list[FCase], c: Fr) -> list[FCase]:
    return div_const(ctx, xs, 1 / c)


def add(ctx: Ctx, xs: list[FCase], ys: list[FCase]) -> list[FCase]:
    out: list[FCase] = []
    for x in xs:
        for y in ys:
            q = min(x.q, y.q)
            A = x.m * 2 ** (x.q - q) + y.m * 2 ** (y.q - q)
            out += rne_rational(ctx, z3.And(x.guard, y.guard), A, Fr(1) / Fr(2) ** q,
                                x.lo + y.lo, x.hi + y.hi)
    return out


def trunc(xs: list[FCase]) -> list[tuple[Any, Any, int, int]]:
    """int(x): list of (guard, int term, lo, hi)."""
    out = []
    for x in xs:
        if x.q >= 0:
            out.append((x.guard, x.m * 2 ** x.q, math.floor(x.lo), math.floor(x.hi)))
        else:
            out.append((x.guard, x.m / (2 ** -x.q), math.floor(x.lo), math.floor(x.hi)))
    return out


def round_half_even(ctx: Ctx, xs: list[FCase]) -> list[tuple[Any, Any, int, int]]:
    """round(x) (Python 3 / C rint in RNE): list of (guard, int term, lo, hi)."""
    out = []
    for x in xs:
        if x.q >= 0:
            out.append((x.guard, x.m * 2 ** x.q, math.floor(x.lo), math.ceil(x.hi)))
        else:
            r = ctx.fresh("r")
            ctx.roundings.append((r, x.m, 2 ** -x.q, 0))
            out.append((z3.And(x.guard, rhe(r, x.m, 2 ** -x.q)), r,
                        math.floor(x.lo), math.ceil(x.hi)))
    return out


def modf(ctx: Ctx, xs: list[FCase]) -> list[tuple[Any, Any, Any, int, Fr]]:
    """modf(x) for x >= 0: list of (guard, intpart term, frac numerator term, frac denominator 2**k as int, frac_hi)."""
    out = []
    for x in xs:
        if x.q >= 0:
            out.append((x.guard, x.m * 2 ** x.q, z3.IntVal(0), 1, Fr(0)))
        else:
            d = 2 ** -x.q
            out.append((x.guard, x.m / d, x.m % d, d, Fr(d - 1, d)))
    return out


def monotone_lemmas(ctx: Ctx) -> list[Any]:
    """Redundant facts that help pair queries: two roundings at the same scale are ordered like
    their arguments (rhe(X/d) is monotone in X).  Each instance is an instance of the generic
    lemma checked by `check_rhe_monotone`."""
    out = []
    rs = ctx.roundings
    for i in range(len(rs)):
        for j in range(i + 1, len(rs)):
            m1, X1, d1, q1 = rs[i]
            m2, X2, d2, q2 = rs[j]
            if d1 == d2 and q1 == q2:
                out.append(z3.Implies(X1 <= X2, m1 <= m2))
                out.append(z3.Implies(X2 <= X1, m2 <= m1))
    return out


def check_rhe_monotone(ds: list[int]) -> tuple[bool, float]:
    """Generic lemma behind `monotone_lemmas`, decided by z3 for every denominator used."""
    import time
    t0 = time.time()
    ok = True
    for d in sorted(set(ds)):
        X1, X2, m1, m2 = z3.Ints("X1 X2 m1 m2")
        s = z3.Solver()
        s.set("timeout", 20000)
        s.add(X1 >= 0, X1 <= X2, rhe(m1, X1, d), rhe(m2, X2, d), m1 > m2)
        if str(s.check()) != "unsat":
            ok = False
    return ok, time.time() - t0
