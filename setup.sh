#!/bin/sh
# Build the overlay virtualenv used by every check (offline, idempotent).
# /venv (python 3.12) holds the repository's dependencies and is left untouched;
# <this dir>/.venv adds crosshair-tool, z3-solver and cvc5 from the local wheelhouse
# and sees /venv's site-packages through a .pth file.
set -e
HERE=$(cd "$(dirname "$0")" && pwd)
V="$HERE/.venv"
STAMP="$V/.ok"
if [ -f "$STAMP" ] && "$V/bin/python" -c "import crosshair, z3, sqlalchemy, pydantic" >/dev/null 2>&1; then
    exit 0
fi
rm -rf "$V"
/venv/bin/python -m venv "$V"
SP=$("$V/bin/python" -c "import sysconfig; print(sysconfig.get_paths()['purelib'])")
printf "import site; site.addsitedir('/venv/lib/python3.12/site-packages')\n" > "$SP/_verif_overlay.pth"
PIP_NO_INDEX=1 "$V/bin/pip" install --quiet --no-index --find-links /opt/veriftools/wheels crosshair-tool z3-solver cvc5 >/dev/null
"$V/bin/python" -c "import crosshair, z3, sqlalchemy, pydantic"
touch "$STAMP"
