"""Names-only stand-in for the janus test-event generator (`test_event_generator`),
which is not installed in this sandbox.  It exists so that `tel2puml.events`,
`tel2puml.pv_to_puml.data_ingestion`, `tel2puml.pv_to_tel` ... can be imported by
the verification harnesses.  It is put on PYTHONPATH by /verif/bin/check only and
is never copied into /repo.  Only `GraphSolution.from_event_list` /
`EventSolution` carry behaviour (a small faithful re-statement of the upstream
semantics: events keyed by eventId, links by previousEventIds); it is part of the
trusted base of C03 and listed in its evidence.
"""
