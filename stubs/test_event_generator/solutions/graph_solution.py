from __future__ import annotations

from .event_solution import EventSolution


class GraphSolution:
    def __init__(self) -> None:
        self.start_events: dict[int, EventSolution] = {}
        self.end_events: dict[int, EventSolution] = {}
        self.events: dict[int, EventSolution] = {}
        self.event_dict_count = 0

    def add_event(self, event: EventSolution) -> None:
        self.event_dict_count += 1
        key = self.event_dict_count
        self.events[key] = event
        if event.is_start:
            self.start_events[key] = event
        if event.is_end:
            self.end_events[key] = event

    def parse_event_solutions(self, events: list[EventSolution]) -> None:
        for ev in events:
            self.add_event(ev)

    @classmethod
    def from_event_list(cls, event_list) -> "GraphSolution":
        sols: dict[str, EventSolution] = {}
        event_list = list(event_list)
        for ev in event_list:
            sols[ev["eventId"]] = EventSolution(meta_data={"EventType": ev["eventType"]})
        for ev in event_list:
            prev = ev.get("previousEventIds", [])
            if isinstance(prev, str):
                prev = [prev]
            for p in prev:
                sols[ev["eventId"]].add_prev_event(sols[p])
        for s in sols.values():
            s.add_to_connected_events()
        gs = cls()
        gs.parse_event_solutions(list(sols.values()))
        return gs

    @staticmethod
    def create_networkx_graph_from_nodes(*a, **k):  # pragma: no cover
        raise NotImplementedError

    @staticmethod
    def get_graphviz_plot(*a, **k):  # pragma: no cover
        raise NotImplementedError
