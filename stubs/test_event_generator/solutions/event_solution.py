from __future__ import annotations


class EventSolution:
    def __init__(self, is_branch=False, is_break_point=False, meta_data=None, **kwargs):
        self.meta_data = dict(meta_data or {})
        self.post_events: list[EventSolution] = []
        self.previous_events: list[EventSolution] = []
        self.is_branch = is_branch
        self.is_break_point = is_break_point
        self.event_id_tuple = None

    def add_prev_event(self, ev: "EventSolution") -> None:
        self.previous_events.append(ev)

    def add_post_event(self, ev: "EventSolution") -> None:
        self.post_events.append(ev)

    def add_to_previous_events(self) -> None:
        for ev in self.previous_events:
            if self not in ev.post_events:
                ev.add_post_event(self)

    def add_to_post_events(self) -> None:
        for ev in self.post_events:
            if self not in ev.previous_events:
                ev.add_prev_event(self)

    def add_to_connected_events(self) -> None:
        self.add_to_previous_events()
        self.add_to_post_events()

    @property
    def is_start(self) -> bool:
        return not self.previous_events

    @property
    def is_end(self) -> bool:
        return not self.post_events
