def puml_file_to_test_events(*args, **kwargs):  # pragma: no cover
    raise NotImplementedError("janus is not available in the verification sandbox")
