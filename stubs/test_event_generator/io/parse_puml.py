class EventData:  # pragma: no cover
    pass


def get_unparsed_job_defs(*args, **kwargs):  # pragma: no cover
    raise NotImplementedError("janus is not available in the verification sandbox")


def parse_raw_job_def_lines(*args, **kwargs):  # pragma: no cover
    raise NotImplementedError("janus is not available in the verification sandbox")
