"""C12 - every stored trace is streamed once, whole, under one workflow name."""
from __future__ import annotations

import itertools
import json
import os
import time
from typing import Any

import z3

from vlib import core, sqlsem as S

HARNESS = os.path.join(core.VERIF, "harness", "c12.py")
SQLF = "tel2puml/otel_to_pv/data_holders/sql_data_holder/sql_dataholder.py"
NCOLS = ["id", "job_name", "job_id", "event_type", "event_id", "start_timestamp", "end_timestamp",
         "application_name", "parent_event_id"]


def capture_stream_statement(flt: Any, names: Any) -> Any:
    """Run the REAL stream_job_name_batches against an empty model store and record the SELECT it iterates."""
    from vlib import modelstore as M, sqlvalidate as V
    from tel2puml.otel_to_pv.data_holders.sql_data_holder import sql_dataholder as sdh
    store = M.Store()
    h = V.model_holder(store, 2, 0)
    rec: list[Any] = []
    orig = h.session.execute

    def execute(stmt: Any, *a: Any, **k: Any) -> Any:
        rec.append(stmt)
        return orig(stmt, *a, **k)
    h.session.execute = execute  # type: ignore[method-assign]
    saved = sdh.tqdm
    sdh.tqdm = V.quiet_tqdm  # type: ignore[assignment]
    try:
        list(h.stream_job_name_batches(h.session, flt, names))
    finally:
        sdh.tqdm = saved
    sels = [s for s in rec if getattr(s, "_order_by_clauses", None)]
    if len(sels) != 1:
        raise S.NotSupported(f"expected one ordered SELECT in stream_job_name_batches, found {len(sels)}")
    return sels[0]


def q1(chk: core.Check, N: int) -> None:
    names_u, ids_u = ["wfA", "wfB"], ["t0", "t1"]
    subsets = [None] + [list(c) for r in range(0, 3) for c in itertools.combinations(ids_u, r)]
    n_q = 0
    t_all = 0.0
    for sa_, sb_ in itertools.product(subsets, subsets):
        flt = {k: set(v) for k, v in (("wfA", sa_), ("wfB", sb_)) if v is not None}
        for fn in (None, {"wfA"}, {"wfA", "wfB"}):
            stmt = capture_stream_statement(flt or None, fn)
            nodes = S.SymTable("nodes", NCOLS, N, "s", nullable=("parent_event_id",))
            alg = S.Z3Alg()
            db = S.z3_db([nodes], alg)
            rel = S.Evaluator(db).select(stmt, {})
            code = alg.const
            # slot ids pairwise distinct (also for empty slots: they only serve to align output rows with slots)
            pre = [nodes.val[i]["id"] != nodes.val[j]["id"] for i in range(N) for j in range(i + 1, N)]
            bad = []
            for i in range(N):
                nm, tid = nodes.val[i]["job_name"], nodes.val[i]["job_id"]
                allowed = z3.BoolVal(True)
                if flt:
                    allowed = z3.Or([z3.And(nm == code(k), z3.Or([tid == code(x) for x in v]) if v else z3.BoolVal(False))
                                     for k, v in flt.items()])
                if fn:
                    allowed = z3.And(allowed, z3.Or([nm == code(k) for k in fn]))
                want = z3.And(nodes.present[i], allowed)
                hits = [z3.And(g, row["id"][0] == nodes.val[i]["id"]) for g, row in rel]
                got = z3.Or(hits) if hits else z3.BoolVal(False)
                once = z3.PbLe([(h, 1) for h in hits], 1) if hits else z3.BoolVal(True)
                cols_ok = z3.And([z3.Implies(z3.And(g, row["id"][0] == nodes.val[i]["id"], nodes.present[i]),
                                             z3.And([row[c][0] == nodes.val[i][c] for c in NCOLS if c != "parent_event_id"]))
                                  for g, row in rel]) if rel else z3.BoolVal(True)
                bad.append(z3.Or(got != want, z3.Not(once), z3.Not(cols_ok)))
            s = z3.Solver()
            s.set("timeout", 60_000)
            s.add(pre + alg.side)
            s.add(z3.Or(bad))
            t0 = time.time()
            r = str(s.check())
            dt = time.time() - t0
            t_all += dt
            n_q += 1
            nm_q = f"q1.filter={ {k: sorted(v) for k, v in flt.items()} } names={sorted(fn) if fn else None} N={N}"
            if r == "unsat":
                chk.held(nm_q, "z3", dt)
            elif r == "sat":
                m = s.model()
                rows = []
                inv = {v: k for k, v in S.STRING_CODES.items()}
                for i in range(N):
                    if z3.is_true(m.eval(nodes.present[i], model_completion=True)):
                        rows.append({c: m.eval(nodes.val[i][c], model_completion=True).as_long() for c in ("id", "job_name", "job_id")})
                rows = [{"id": r_["id"], "job_name": inv.get(r_["job_name"], f"n{r_['job_name']}"),
                         "job_id": inv.get(r_["job_id"], f"j{r_['job_id']}")} for r_ in rows]
                viol, what = replay_filter(rows, flt or None, fn)
                chk.counterexample(nm_q, "z3", dt, sig="stream-filter", what=what,
                                   replay={"kind": "filter", "rows": rows, "filter": {k: sorted(v) for k, v in flt.items()},
                                           "names": sorted(fn) if fn else None}, reproduced=viol)
            else:
                chk.unknown(nm_q, "z3", dt, f"solver answered {r}")
    # vacuity twin: some row selected and some row filtered out under a filter
    stmt = capture_stream_statement({"wfA": {"t0"}}, None)
    nodes = S.SymTable("nodes", NCOLS, N, "s", nullable=("parent_event_id",))
    alg = S.Z3Alg()
    rel = S.Evaluator(S.z3_db([nodes], alg)).select(stmt, {})
    s = z3.Solver()
    s.add(z3.Or([g for g, _ in rel]), z3.Or([z3.And(nodes.present[i], z3.Not(z3.Or([z3.And(g, row["id"][0] == nodes.val[i]["id"]) for g, row in rel])))
                                              for i in range(N)]))
    t0 = time.time()
    chk.twin("q1.twin", "z3", str(s.check()) == "sat", time.time() - t0)
    chk.samples.append({"q1": "for every store of N rows: rows yielded by the SELECT of stream_job_name_batches == rows allowed by the "
                              "name filter and the name->trace-id map, each exactly once, columns unchanged", "queries": n_q})


def replay_filter(rows: list[dict[str, Any]], flt: Any, fn: Any) -> tuple[bool, str]:
    import sqlalchemy as sa
    from vlib import sqlvalidate as V
    from tel2puml.otel_to_pv.data_holders.sql_data_holder import sql_dataholder as sdh
    from tel2puml.otel_to_pv.data_holders.sql_data_holder.data_model import NodeModel
    h = V.real_holder(2, 0)
    with h.session as s:
        for k, r in enumerate(rows):
            s.add(NodeModel(id=r["id"], job_name=r["job_name"], job_id=r["job_id"], event_type="T", event_id=f"e{k}",
                            start_timestamp=1, end_timestamp=2, application_name="a", parent_event_id=None))
        s.commit()
    saved = sdh.tqdm
    sdh.tqdm = V.quiet_tqdm  # type: ignore[assignment]
    try:
        with h.session as s:
            got = sorted(e.event_id for e in h.stream_job_name_batches(s, flt, fn))
    finally:
        sdh.tqdm = saved
    h.engine.dispose()
    want = sorted(f"e{k}" for k, r in enumerate(rows)
                  if (not flt or any(r["job_name"] == n and r["job_id"] in ids for n, ids in flt.items()))
                  and (not fn or r["job_name"] in fn))
    return got != want, f"streamed spans {got}, filter allows {want} (rows {rows}, filter {flt}, names {fn})"


def conditions(tier: str) -> list[core.Cond]:
    tmo = 400 if tier == "quick" else 1500
    conds = []
    shapes = [(4, 2), (4, 3)] if tier == "quick" else [(4, 2), (4, 3), (5, 3)]
    filters: list[Any] = [None,
                          {"wfA": ["t0", "t1", "t2"], "wfB": ["t0", "t1", "t2"]},
                          {"wfA": ["t0"], "wfB": ["t1"]},
                          {"wfA": ["t0", "t1"], "wfB": ["t1"]}]
    for (n, T) in shapes:
        for f in filters:
            if (n, T) == (4, 3) and tier == "quick" and f not in (None, filters[3]):
                continue
            shards: list[dict[str, int]] = [{}] if T == 2 else [{"n0": a, "r1": b} for a in (0, 1) for b in (0, 1)]
            for fx in shards:
                conds.append(core.Cond(f"stream n={n} traces<={T} filter={json.dumps(f, sort_keys=True)} shard={fx}", HARNESS, "check",
                                       {"n": n, "T": T, "filter": f, "batch": 2, "fix": fx}, tmo))
    for n0 in (0, 1):
        conds.append(core.Cond(f"stream n=4 traces<=3, a span whose parent lives in another trace (shard {n0})", HARNESS, "check",
                               {"n": 4, "T": 3, "filter": None, "batch": 2, "cross": 1, "fix": {"r1": 1, "n0": n0}}, tmo))
    conds.append(core.Cond("stream n=4 traces<=2 name-filter", HARNESS, "check", {"n": 4, "T": 2, "filter": None, "names": ["wfB"], "batch": 1}, tmo))
    conds.append(core.Cond("twin", HARNESS, "twin", {"n": 4, "T": 2, "filter": None, "batch": 2}, tmo, expect_violation=True))
    return conds


def _replay(res: core.CondResult) -> tuple[bool, str, str, dict[str, Any]]:
    out = core.replay_call(HARNESS, "replay", res.args or [], res.cond.cfg)
    if "error" in out:
        return False, "replay-error", out["error"][-600:], {}
    return bool(out["violates"]), out["sig"], out["what"], {"replay_result": out}


def run(tier: str) -> int:
    chk = core.Check("C12", tier, "model_checking")
    chk.encode(SQLF, "stream_job_name_batches (its SELECT -> z3, sa2smt); stream_data, node_to_otel_event (CrossHair on the model store)")
    chk.encode("tel2puml/otel_to_pv/sequence_otel.py", "job_ids_to_eventid_to_otelevent_map, convert_otel_event_stream_to_event_id_to_otelevent_map")
    chk.bounds = {"q1": "every store of N rows (N=4; thorough 6), every name->trace-id map over 2 names x 2 ids (25 maps) x 3 name filters",
                  "q2": "4 rows over <=2 and <=3 traces (thorough: 5 rows over <=3): every assignment of rows to traces (= every interleaving in "
                        "insertion order), every assignment of 2 workflow names to traces; 4 filter variants"}
    chk.outside = ["server-side cursor behaviour of yield_per in a real driver", "more than 5 rows / 3 traces / 2 names in the CrossHair part",
                   "traces whose spans carry different workflow names (excluded: post-condition of cleaning, C11)"]
    chk.assumptions = ["model store semantics validated against real SQLite each run; an un-ORDERed query returns insertion order",
                       "z3, CrossHair path exhaustion"]
    chk.explanation = "filter semantics decided by z3 on the real statement; lazy two-level grouping decided by CrossHair over all interleavings"
    from vlib import sqlvalidate
    t0 = time.time()
    nval, bad = sqlvalidate.validate(seed=chk.seed, rounds=60)
    if bad:
        chk.unknown("model-store-validation", "sqlite-diff", time.time() - t0, f"model store disagrees with SQLite: {bad[0][:500]}")
        return chk.finish()
    chk.extra["validation_runs"] = nval
    try:
        q1(chk, 4 if tier == "quick" else 6)
    except S.NotSupported as e:
        chk.unknown("q1", "sa2smt", 0.0, f"SQL construct not supported: {e}")
    conds = conditions(tier)
    results = core.run_conds(conds)
    core.handle_crosshair_results(chk, results, _replay)
    chk.samples += [{"condition": r.cond.name, "paths": r.paths, "status": r.status} for r in results][:8]
    chk.extra["conditions"] = len(conds)
    chk.extra["paths_explored_total"] = sum(r.paths for r in results)
    return chk.finish()


def replay_file(path: str) -> int:
    rec = json.load(open(path))["replay"]
    if rec.get("kind") == "filter":
        flt = {k: set(v) for k, v in rec["filter"].items()} or None
        viol, what = replay_filter(rec["rows"], flt, set(rec["names"]) if rec["names"] else None)
        print(what)
        return 1 if viol else 0
    out = core.replay_call(HARNESS, "replay", rec["args"], rec["cfg"])
    print(json.dumps(out, indent=1))
    return 1 if out.get("violates") else 0
