"""C04 (in part) - the saved model round-trips and the cached gate tree stays coherent (CrossHair)."""
from __future__ import annotations

import os

from vlib import core
from checks import simple

HARNESS = os.path.join(core.VERIF, "harness", "c04.py")


def run(tier: str) -> int:
    chk = core.Check("C04", tier, "other")
    chk.encode("tel2puml/pv_to_puml/pv_to_puml.py", "pv_streams_to_puml_files, pv_to_puml_file, pv_to_puml_string (ingestion stage; diagram stages stubbed)")
    chk.encode("tel2puml/pv_to_puml/data_ingestion.py", "update_and_create_events_from_clustered_pvevents (add_dummy_start)")
    chk.encode("tel2puml/events.py", "save_events_to_file, load_events_from_file, Event.__init__, update_event_sets, update_in_event_sets, remove_event_type_from_event_sets, "
               "logic_gate_tree (getter), to_event_input, EventSet.to_event_set_count_input_list, events_to_event_inputs, "
               "event_inputs_to_events, events_to_raw_input, raw_input_to_events, EventInput / EventSetCountInput models")
    chk.bounds = {"histories": "every history of 3 (thorough: also 4, 11^4 = 14641) operations from {update successors (4 lists, incl. a repeated type), update predecessors "
                               "(4 lists), remove a type, read the gate tree, save+load through the JSON model}: 11^3 = 1331 histories; "
                               "after every step the sets and counts equal a multiset reference and every read of the gate tree equals "
                               "G(current successor sets)"}
    chk.bounds["chunks"] = ("three jobs (two sharing a start event, one with a new start event), every split into a first and a second chunk "
                            "with a save/load of the model in between, job name with and without a space: the model saved after the "
                            "second chunk equals the model of a single run")
    chk.outside = ["equivalence of the DIAGRAMS of split and single runs (needs the learner: pm4py/networkx, see C01)",
                   "calculate_logic_gates itself (replaced by a deterministic marker G)", "file I/O of save_events_to_file/load_events_from_file (json text is produced and parsed in memory)"]
    chk.assumptions = ["calculate_logic_gates stubbed by a marker function of the successor sets", "CrossHair path exhaustion over a finite domain"]
    chk.explanation = ("PARTIAL: decides 'reloading a model with no new evidence still reproduces the logic' (cache coherence invariant) and "
                       "'the model file round-trips every event, set and count', and that chunked learning through the real model "
                       "plumbing reaches the same LEARNED STATE as a single run; diagram equivalence is not claimed")
    tmo = 400 if tier == "quick" else 1200
    conds = [core.Cond(f"3-step histories starting with op {o}", HARNESS, "check", {"o1": o, "len": 3}, tmo) for o in range(11)]
    if tier == "thorough":
        conds += [core.Cond(f"4-step histories starting with ops {a},{b}", HARNESS, "check", {"o1": a, "o2": b, "len": 4}, tmo)
                  for a in range(11) for b in range(11)]
    conds.append(core.Cond("chunked learning through the model plumbing (which jobs in the second chunk, job name with/without a space)",
                           HARNESS, "chunks", {"kind": "chunks"}, tmo))
    conds.append(core.Cond("chunks.twin", HARNESS, "chunks_twin", {"kind": "chunks"}, tmo, expect_violation=True))
    conds.append(core.Cond("twin", HARNESS, "twin", {"o1": 2, "len": 3}, tmo, expect_violation=True))
    return simple.run_conditions(chk, HARNESS, conds)


def replay_file(path: str) -> int:
    return simple.replay_file(HARNESS, path)
