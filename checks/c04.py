"""C04 (in part) - the saved model round-trips and the cached gate tree stays coherent (CrossHair)."""
from __future__ import annotations

import os

from vlib import core
from checks import simple

HARNESS = os.path.join(core.VERIF, "harness", "c04.py")


def run(tier: str) -> int:
    chk = core.Check("C04", tier, "other")
    chk.encode("tel2puml/events.py", "Event.__init__, update_event_sets, update_in_event_sets, remove_event_type_from_event_sets, "
               "logic_gate_tree (getter), to_event_input, EventSet.to_event_set_count_input_list, events_to_event_inputs, "
               "event_inputs_to_events, events_to_raw_input, raw_input_to_events, EventInput / EventSetCountInput models")
    chk.bounds = {"histories": "every history of 3 operations from {update successors (4 lists, incl. a repeated type), update predecessors "
                               "(4 lists), remove a type, read the gate tree, save+load through the JSON model}: 11^3 = 1331 histories; "
                               "after every step the sets and counts equal a multiset reference and every read of the gate tree equals "
                               "G(current successor sets)"}
    chk.outside = ["equivalence of the DIAGRAMS of split and single runs (needs the learner: pm4py/networkx, see C01)",
                   "calculate_logic_gates itself (replaced by a deterministic marker G)", "file I/O of save_events_to_file/load_events_from_file (json text is produced and parsed in memory)"]
    chk.assumptions = ["calculate_logic_gates stubbed by a marker function of the successor sets", "CrossHair path exhaustion over a finite domain"]
    chk.explanation = ("PARTIAL: decides 'reloading a model with no new evidence still reproduces the logic' (cache coherence invariant) and "
                       "'the model file round-trips every event, set and count'; diagram equivalence of chunked learning is not claimed")
    tmo = 400 if tier == "quick" else 1200
    conds = [core.Cond(f"histories starting with op {o}", HARNESS, "check", {"o1": o}, tmo) for o in range(11)]
    conds.append(core.Cond("twin", HARNESS, "twin", {"o1": 2}, tmo, expect_violation=True))
    return simple.run_conditions(chk, HARNESS, conds)


def replay_file(path: str) -> int:
    return simple.replay_file(HARNESS, path)
