"""C15 - re-running against a persisted store is repeatable (CrossHair over the real otel_to_pv driver on a persistent model store)."""
from __future__ import annotations

import itertools
import json
import os
import time
from typing import Any

from vlib import core

HARNESS = os.path.join(core.VERIF, "harness", "c15.py")


def conditions(tier: str) -> list[core.Cond]:
    tmo = 500 if tier == "quick" else 1500
    runs = [[1, 0], [1, 1], [0, 0], [0, 1]]
    conds = []
    lengths = [2] if tier == "quick" else [2, 3]
    for L in lengths:
        for first in ([1, 0], [1, 1]):
            for rest in itertools.product(runs, repeat=L - 1):
                for buf in ((1,) if tier == "quick" else (0, 1)):
                    hist = [first] + [list(r) for r in rest]
                    for late in ((0, 2, 4) if tier == "quick" else range(5)):
                        if buf == 0 and late not in (0, 4):
                            continue
                        conds.append(core.Cond(f"history {hist} buffer={buf} placement={late}", HARNESS, "check",
                                               {"history": hist, "buf": buf, "batch": 2, "late": late}, tmo))
    # another batch size: a batch that mixes an already stored span with spans of a trace that an earlier run removed
    for first in ([1, 0], [1, 1]):
        for second in ([1, 0], [1, 1]):
            conds.append(core.Cond(f"history {[first, second]} buffer=1 placement=2 batch=3", HARNESS, "check",
                                   {"history": [first, second], "buf": 1, "batch": 3, "late": 2}, tmo))
    # the first run does not ingest (empty store), later runs do
    for hist in ([[0, 1], [1, 1]], [[0, 1], [1, 0]], [[0, 0], [0, 1], [1, 1]]):
        conds.append(core.Cond(f"history {hist} (store empty at first) buffer=1 placement=0", HARNESS, "check",
                               {"history": hist, "buf": 1, "batch": 2, "late": 0}, tmo))
    # no time buffer: the window pass removes nothing
    for hist in ([[1, 0], [1, 0]], [[1, 1], [1, 1]]):
        for bs in (2, 3):
            conds.append(core.Cond(f"history {hist} buffer=0 placement=0 batch={bs}", HARNESS, "check",
                                   {"history": hist, "buf": 0, "batch": bs, "late": 0}, tmo))
    # a run whose lazy output is never read (the otel2pv command without --save-events), followed by ordinary runs
    for first in ([1, 1, 0], [1, 0, 0]):
        for second in runs:
            hist = [first, list(second)] if tier == "quick" else [[1, 1], first[:2] + [0], list(second)]
            conds.append(core.Cond(f"history {hist} (third flag 0 = output not read) buffer=1 placement=0", HARNESS, "check",
                                   {"history": hist, "buf": 1, "batch": 2, "late": 0}, tmo))
    conds.append(core.Cond("twin", HARNESS, "twin", {"history": [[1, 1]], "buf": 1, "batch": 2, "late": 0}, tmo, expect_violation=True))
    return conds


def _replay(res: core.CondResult) -> tuple[bool, str, str, dict[str, Any]]:
    out = core.replay_call(HARNESS, "replay", res.args or [], res.cond.cfg)
    if "error" in out:
        return False, "replay-error", out["error"][-600:], {}
    return bool(out["violates"]), out["sig"], out["what"], {"replay_result": out}


def run(tier: str) -> int:
    chk = core.Check("C15", tier, "model_checking")
    chk.encode("tel2puml/otel_to_pv/otel_to_pv.py", "otel_to_pv (driver: ingest / no-ingest, cleaning order, unique graphs, streaming)")
    chk.encode("tel2puml/otel_to_pv/ingest_otel_data.py", "ingest_data_into_dataholder, IngestData.load_to_data_holder")
    chk.encode("tel2puml/otel_to_pv/data_holders/sql_data_holder/sql_dataholder.py",
               "SQLDataHolder ingestion, cleaning, find_unique_graphs (temp table, job_hashes), stream_data")
    chk.encode("tel2puml/otel_to_pv/sequence_otel.py", "sequence_otel_job_id_streams")
    chk.bounds = {"histories": "every history of 2 (thorough: 2 and 3) separate-process runs over one store; run 1 ingests (plus a few histories "
                               "whose first run does not); each later run chooses "
                               "{ingest, no-ingest} x {unique graphs on/off}; time_buffer 0 and 1 minute",
                  "data": "5 traces (two window anchors, three main traces, two of them of equal shape, one with an inconsistent workflow name); "
                          "one span sent twice inside a batch; per condition: which main trace lies in the trailing buffer zone / covers the whole window; "
                          "symbolic: which main trace has a dangling parent"}
    chk.outside = ["histories of 4 runs (path count x4 per run)", "the save-events flag (file output; C14 covers the files)",
                   "ORM object-state effects on real SQLite that the model store does not reproduce (seen only at replay)"]
    chk.assumptions = ["fetch_data_source stubbed by a fixed event list, fetch_data_holder by a fresh holder on the same store "
                       "(= new process on the same database file); tqdm silenced", "model store validated against SQLite each run",
                       "a new process is emulated by dropping temporary tables and the temp table's metadata entry"]
    chk.explanation = "every run of every flag history must equal a first run with the same flags on a fresh store, and must not raise"
    from vlib import sqlvalidate
    t0 = time.time()
    nval, bad = sqlvalidate.validate(seed=chk.seed, rounds=60)
    if bad:
        chk.unknown("model-store-validation", "sqlite-diff", time.time() - t0, f"model store disagrees with SQLite: {bad[0][:500]}")
        return chk.finish()
    chk.extra["validation_runs"] = nval
    conds = conditions(tier)
    results = core.run_conds(conds)
    core.handle_crosshair_results(chk, results, _replay)
    chk.samples = [{"condition": r.cond.name, "paths": r.paths, "status": r.status} for r in results][:8]
    chk.extra["conditions"] = len(conds)
    chk.extra["paths_explored_total"] = sum(r.paths for r in results)
    return chk.finish()


def replay_file(path: str) -> int:
    rec = json.load(open(path))["replay"]
    out = core.replay_call(HARNESS, "replay", rec["args"], rec["cfg"])
    print(json.dumps(out, indent=1))
    return 1 if out.get("violates") else 0
