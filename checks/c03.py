"""C03 (in part) - the learned state is independent of order, identifiers, repeats (CrossHair)."""
from __future__ import annotations

import os

from vlib import core
from checks import simple

HARNESS = os.path.join(core.VERIF, "harness", "c03.py")


def run(tier: str) -> int:
    chk = core.Check("C03", tier, "other")
    chk.encode("tel2puml/events.py", "EventSet (__init__, __eq__, __hash__, is_subset), Event.update_event_sets, Event.update_in_event_sets")
    chk.encode("tel2puml/utils.py", "get_weighted_cover (answer independent of the iteration order of its input set)")
    chk.encode("tel2puml/pv_to_puml/data_ingestion.py", "cluster_events_by_job_id, update_and_create_events_from_clustered_pvevents, "
               "get_graph_solutions_from_clustered_events, update_and_create_events_from_graph_solution(s), get_events_set_from_events_list")
    n = 5 if tier == "quick" else 6
    chk.bounds = {"a": "event lists of length <=3 over 3 names x every permutation; subset/equality over all pairs of 8 list shapes",
                  "b": "three successor lists from 8 shapes (incl. repeats and the empty list) in 4 presentation orders with repetition",
                  "d": "every family of observed sets over 3 events presented to get_weighted_cover as a real set and in 4 explicit iteration orders",
                  "c": f"streams of {n} PV events: EVERY interleaving of up to 3 jobs (restricted-growth assignment), ids renamed, "
                       "timestamps changed, stream reversed, whole stream supplied twice"}
    chk.outside = ["convergence of the graph walk for every set iteration order / hash seed (walk_puml_logic_graph.py, detect_loops.py: "
                   "behind the pm4py/networkx barrier, see C01)", "logic_detection's augmented log with random case ids"]
    chk.assumptions = ["janus stand-in GraphSolution.from_event_list / EventSolution (vlib stubs/test_event_generator) is trusted",
                       "CrossHair path exhaustion over finite domains (bounded exhaustion through the solver)"]
    chk.explanation = ("PARTIAL: decides the ingestion-state clause of C03 (state = function of the set of job graphs); diagram-level "
                       "equivalence across presentations is not claimed")
    tmo = 400 if tier == "quick" else 1500
    conds = [core.Cond(f"a.eventset multiset algebra |list|={k}", HARNESS, "eventset", {"kind": "eventset", "len": k}, tmo) for k in (1, 2, 3)]
    conds += [core.Cond("a.subset/equality against multiset semantics", HARNESS, "subset", {"kind": "subset"}, tmo),
             core.Cond("a.twin", HARNESS, "eventset_twin", {"kind": "eventset", "len": 2}, tmo, expect_violation=True),
             *[core.Cond(f"b.accumulation order-free and idempotent first-list={a}", HARNESS, "accumulate", {"kind": "accumulate", "a": a}, tmo)
               for a in range(8)],
             core.Cond("b.twin", HARNESS, "accumulate_twin", {"kind": "accumulate"}, tmo, expect_violation=True),
             *[core.Cond(f"c.clustering n={n} shard={fx}", HARNESS, "cluster", {"kind": "cluster", "n": n, "fix": fx}, tmo)
               for fx in ([0, 0], [0, 1], [1, 0], [1, 1], [1, 2])],
             core.Cond("c.twin", HARNESS, "cluster_twin", {"kind": "cluster", "n": 4}, tmo, expect_violation=True)]
    # hash-seed dimension for the one gate-inference kernel that is reachable (shared harness with C06)
    h06 = os.path.join(core.VERIF, "harness", "c06.py")
    conds.append(core.Cond("d.get_weighted_cover independent of set iteration order, |U|=3", h06, "check", {"k": 3, "kind": "order"}, tmo))
    results_main = [c for c in conds if c.module == HARNESS]
    results_h06 = [c for c in conds if c.module == h06]
    res = core.run_conds(results_main + results_h06)
    core.handle_crosshair_results(chk, [r for r in res if r.cond.module == HARNESS], simple.make_replay(HARNESS))
    core.handle_crosshair_results(chk, [r for r in res if r.cond.module == h06], simple.make_replay(h06))
    chk.samples += [{"condition": r.cond.name, "cfg": r.cond.cfg, "paths": r.paths, "status": r.status} for r in res[:: max(1, len(res) // 8)]][:10]
    chk.extra["conditions"] = len(conds)
    chk.extra["paths_explored_total"] = sum(r.paths for r in res)
    return chk.finish()


def replay_file(path: str) -> int:
    return simple.replay_file(HARNESS, path)
