"""C11 - cleaning removes exactly the broken / out-of-window traces (sa2smt, z3)."""
from __future__ import annotations

import ast
import json
import os
import time
from typing import Any

import z3

from vlib import core, sqlsem as S, symexec as X

SQLF = "tel2puml/otel_to_pv/data_holders/sql_data_holder/sql_dataholder.py"
BASEF = "tel2puml/otel_to_pv/data_holders/base.py"
DRV = "tel2puml/otel_to_pv/otel_to_pv.py"
CLEANERS = ("remove_inconsistent_jobs", "remove_jobs_outside_of_time_window", "update_job_names_by_root_span")
NCOLS = ["id", "job_name", "job_id", "event_type", "event_id", "start_timestamp", "end_timestamp",
         "application_name", "parent_event_id"]
ACOLS = ["parent_id", "child_id"]
BIG = 2 ** 62
FLOAT_RANGE_NOTE = ("the window computation used float arithmetic: analysed for tracked min/max timestamps in [2**60, 2**61] "
                    "(years 2006..2043) and time_buffer <= 1000 minutes only")


def cleaning_order() -> list[str]:
    """The data_holder.<cleaner>() calls of otel_to_pv, in source order (read from the AST)."""
    tree = ast.parse(open(core.repo_file(DRV)).read())
    fn = next(n for n in ast.walk(tree) if isinstance(n, ast.FunctionDef) and n.name == "otel_to_pv")
    calls = []
    for n in ast.walk(fn):
        if (isinstance(n, ast.Call) and isinstance(n.func, ast.Attribute) and isinstance(n.func.value, ast.Name)
                and n.func.value.id == "data_holder" and n.func.attr in CLEANERS + ("find_unique_graphs", "stream_data")):
            calls.append((n.lineno, n.col_offset, n.func.attr))
    calls.sort()
    names = [c[2] for c in calls]
    stop = min([names.index(x) for x in ("find_unique_graphs", "stream_data") if x in names] or [len(names)])
    return [x for x in names[:stop] if x in CLEANERS]


class Recorder:
    """Stands in for the SQLAlchemy session while the REAL cleaning methods build their statements."""

    def __init__(self) -> None:
        self.stmts: list[Any] = []

    def __enter__(self) -> "Recorder":
        return self

    def __exit__(self, *a: Any) -> None:
        return None

    def execute(self, stmt: Any, *a: Any, **k: Any) -> Any:
        self.stmts.append(stmt)

        class R:
            rowcount = 0
        return R()

    def commit(self) -> None:
        pass

    def rollback(self) -> None:
        pass

    def close(self) -> None:
        pass


def capture(order: list[str], minT: Any, maxT: Any, buf: Any, base: list[Any]) -> list[tuple[list[Any], list[Any], Any]]:
    """Run the real cleaning methods (symbolically over the tracked min/max/buffer) against a recording session.
    -> [(path condition, statements, exception)]"""
    from tel2puml.otel_to_pv.data_holders.sql_data_holder.sql_dataholder import SQLDataHolder
    box: dict[str, Any] = {}

    def go() -> Any:
        h = SQLDataHolder.__new__(SQLDataHolder)
        # the intervals are used ONLY if the executed code converts these ints to floats (then the analysis is restricted
        # to them, see FLOAT_RANGE_NOTE); pure integer code is analysed over the full range given by `base`
        h._min_timestamp = X.SymInt(minT, 2**60, 2**61)
        h._max_timestamp = X.SymInt(maxT, 2**60, 2**61)
        h.time_buffer = X.SymInt(buf, 0, 1000)
        h.batch_size = 5
        h.session = Recorder()
        box["h"] = h
        for m in order:
            getattr(h, m)()
        return h.session.stmts
    out = []
    for pc, res, exc in X.explore(go, base):
        out.append((pc, res if exc is None else box["h"].session.stmts, exc))
    return out


def pre_state(N: int) -> tuple[dict[str, S.SymTable], list[Any]]:
    nodes = S.SymTable("nodes", NCOLS, N, "s0", nullable=("parent_event_id",))
    assoc = S.SymTable("NODE_ASSOCIATION", ACOLS, N, "s0")
    pre: list[Any] = []
    for i in range(N):
        for j in range(i + 1, N):
            both = z3.And(nodes.present[i], nodes.present[j])
            pre.append(z3.Implies(both, nodes.val[i]["event_id"] != nodes.val[j]["event_id"]))
            pre.append(z3.Implies(both, nodes.val[i]["id"] != nodes.val[j]["id"]))
        # ingestion invariant (C10): association rows are exactly the parent links of the stored spans
        pre.append(assoc.present[i] == z3.And(nodes.present[i], z3.Not(nodes.null[i]["parent_event_id"])))
        pre.append(assoc.val[i]["parent_id"] == nodes.val[i]["parent_event_id"])
        pre.append(assoc.val[i]["child_id"] == nodes.val[i]["event_id"])
        for c in ("start_timestamp", "end_timestamp"):
            pre += [nodes.val[i][c] >= 0, nodes.val[i][c] <= BIG]
        for c in ("job_name", "job_id", "event_type", "event_id", "application_name", "parent_event_id", "id"):
            pre += [nodes.val[i][c] >= 0, nodes.val[i][c] <= 50]
    return {"nodes": nodes, "NODE_ASSOCIATION": assoc}, pre


def apply_all(tabs: dict[str, S.SymTable], stmts: list[Any]) -> tuple[dict[str, S.SymTable], list[Any], S.Z3Alg]:
    from sqlalchemy.sql.dml import Delete, Update
    alg = S.Z3Alg()
    cons: list[Any] = []
    for k, st in enumerate(stmts):
        db = S.z3_db(list(tabs.values()), alg)
        if isinstance(st, Delete):
            tabs, c = S.apply_delete(db, tabs, st, f"s{k+1}")
        elif isinstance(st, Update):
            tabs, c = S.apply_update_from(db, tabs, st, f"s{k+1}")
        else:
            raise S.NotSupported(f"statement {type(st).__name__} in cleaning")
        cons += c
    return tabs, cons + alg.side, alg


def spec(N: int, t0: dict[str, S.SymTable], t1: dict[str, S.SymTable], w0: Any, w1: Any) -> dict[str, Any]:
    n0, n1, a1 = t0["nodes"], t1["nodes"], t1["NODE_ASSOCIATION"]
    R = range(N)

    def same_job(i: int, j: int) -> Any:
        return n0.val[i]["job_id"] == n0.val[j]["job_id"]

    def dangling(j: int) -> Any:
        return z3.And(n0.present[j], z3.Not(n0.null[j]["parent_event_id"]),
                      z3.Not(z3.Or([z3.And(n0.present[k], n0.val[k]["event_id"] == n0.val[j]["parent_event_id"]) for k in R])))

    def in_win(j: int) -> Any:
        s, e = n0.val[j]["start_timestamp"], n0.val[j]["end_timestamp"]
        return z3.And(n0.present[j], z3.Or(z3.And(w0 <= s, s <= w1), z3.And(w0 <= e, e <= w1)))
    keep = [z3.And(n0.present[i],
                   z3.Not(z3.Or([z3.And(same_job(i, j), dangling(j)) for j in R])),
                   z3.Or([z3.And(same_job(i, j), in_win(j)) for j in R])) for i in R]
    presence = z3.And([n1.present[i] == keep[i] for i in R])
    frame = z3.And([z3.Implies(keep[i], z3.And(n1.frame(n0, i, except_cols=("job_name",)))) for i in R])

    def root(j: int) -> Any:
        return z3.And(keep[j], n0.null[j]["parent_event_id"])
    names = []
    for i in R:
        roots = [z3.And(same_job(i, j), root(j)) for j in R]
        one = z3.PbEq([(r, 1) for r in roots], 1)
        none = z3.Not(z3.Or(roots))
        names.append(z3.Implies(z3.And(keep[i], one),
                                z3.Or([z3.And(roots[j], n1.val[i]["job_name"] == n0.val[j]["job_name"]) for j in R])))
        names.append(z3.Implies(z3.And(keep[i], none), n1.val[i]["job_name"] == n0.val[i]["job_name"]))
    assoc = z3.And([z3.And(a1.present[i] == z3.And(keep[i], z3.Not(n0.null[i]["parent_event_id"])),
                           z3.Implies(a1.present[i], z3.And(a1.val[i]["parent_id"] == n0.val[i]["parent_event_id"],
                                                            a1.val[i]["child_id"] == n0.val[i]["event_id"]))) for i in R])
    return {"presence": presence, "frame": frame, "names": z3.And(names), "associations": assoc,
            "_keep": keep}


# --------------------------------------------------------------------------
# replay on real SQLite
# --------------------------------------------------------------------------
def concrete_spec(rows: list[dict[str, Any]], w0: int, w1: int) -> tuple[list[dict[str, Any]], set[tuple[str, str]]]:
    ids = {r["event_id"] for r in rows}
    broken = {r["job_id"] for r in rows if r["parent_event_id"] is not None and r["parent_event_id"] not in ids}
    inwin = {r["job_id"] for r in rows
             if (w0 <= r["start_timestamp"] <= w1) or (w0 <= r["end_timestamp"] <= w1)}
    keep = [dict(r) for r in rows if r["job_id"] not in broken and r["job_id"] in inwin]
    for r in keep:
        roots = [q for q in keep if q["job_id"] == r["job_id"] and q["parent_event_id"] is None]
        if len(roots) == 1:
            r["_name"] = roots[0]["job_name"]
        elif not roots:
            r["_name"] = r["job_name"]
        else:
            r["_name"] = None  # unspecified
    for r in keep:
        if r["_name"] is not None:
            r["job_name"] = r["_name"]
    assoc = {(r["parent_event_id"], r["event_id"]) for r in keep if r["parent_event_id"] is not None}
    return keep, assoc


def real_clean(rows: list[dict[str, Any]], minT: int, maxT: int, buf: int, order: list[str]) -> tuple[Any, Any, Any]:
    from tel2puml.otel_to_pv.config import SQLDataHolderConfig
    from tel2puml.otel_to_pv.data_holders.sql_data_holder.sql_dataholder import SQLDataHolder
    from tel2puml.otel_to_pv.data_holders.sql_data_holder.data_model import NodeModel, NODE_ASSOCIATION
    import sqlalchemy as sa
    h = SQLDataHolder(SQLDataHolderConfig(db_uri="sqlite:///:memory:", batch_size=5, time_buffer=buf))
    with h.session as s:
        for r in rows:
            s.add(NodeModel(**{k: v for k, v in r.items()}))
        s.commit()
        links = [{"parent_id": r["parent_event_id"], "child_id": r["event_id"]} for r in rows if r["parent_event_id"] is not None]
        if links:
            s.execute(sa.insert(NODE_ASSOCIATION), links)
            s.commit()
    h._min_timestamp, h._max_timestamp = minT, maxT
    try:
        for m in order:
            getattr(h, m)()
    except Exception as e:  # noqa
        return None, None, e
    with h.session as s:
        got = [dict(id=n.id, job_name=n.job_name, job_id=n.job_id, event_type=n.event_type, event_id=n.event_id,
                    start_timestamp=n.start_timestamp, end_timestamp=n.end_timestamp,
                    application_name=n.application_name, parent_event_id=n.parent_event_id)
               for n in s.query(NodeModel).order_by(NodeModel.id).all()]
        assoc = {(a, b) for a, b in s.execute(sa.select(NODE_ASSOCIATION.c.parent_id, NODE_ASSOCIATION.c.child_id)).all()}
    return got, assoc, None


def replay_model(rows: list[dict[str, Any]], minT: int, maxT: int, buf: int, order: list[str]) -> tuple[bool, str]:
    got, assoc, exc = real_clean(rows, minT, maxT, buf, order)
    if exc is not None:
        if isinstance(exc, ValueError) and "time buffer is too large" in str(exc):
            return False, "real code reports 'time buffer too large' (outside the claim)"
        return True, f"cleaning raised {type(exc).__name__}: {exc}"
    # window as the real holder computes it
    from tel2puml.otel_to_pv.data_holders.base import DataHolder, get_time_window

    class H(DataHolder):  # the documented window, via the real helper
        _save_data = get_otel_events_from_job_ids = find_unique_graphs = stream_data = None  # type: ignore
        update_job_names_by_root_span = remove_inconsistent_jobs = remove_jobs_outside_of_time_window = None  # type: ignore
    w0 = (0 if minT > maxT else minT) + buf * 60 * 10**9
    w1 = (9223372036854775807 if maxT < minT else maxT) - buf * 60 * 10**9
    want, want_assoc = concrete_spec(rows, w0, w1)
    key = lambda r: r["id"]
    g = sorted(got, key=key)
    w = sorted(want, key=key)
    if [r["id"] for r in g] != [r["id"] for r in w]:
        return True, (f"surviving spans {[r['event_id'] for r in g]} but the rule keeps {[r['event_id'] for r in w]} "
                      f"(window [{w0},{w1}], store {rows})")
    for a, b in zip(g, w):
        for c in NCOLS:
            if c == "job_name" and b.get("_name") is None:
                continue
            if a[c] != b[c]:
                return True, f"span {a['event_id']}: column {c} is {a[c]!r}, expected {b[c]!r} (store {rows})"
    if assoc != want_assoc:
        return True, f"association rows {sorted(assoc)} but surviving parent links are {sorted(want_assoc)} (store {rows})"
    return False, "real SQLite agrees with the rule"


def model_rows(m: Any, t: S.SymTable) -> list[dict[str, Any]]:
    rows = []
    for i in range(t.n):
        if not z3.is_true(m.eval(t.present[i], model_completion=True)):
            continue
        r: dict[str, Any] = {}
        for c in t.cols:
            v = m.eval(t.val[i][c], model_completion=True).as_long()
            isnull = z3.is_true(m.eval(t.null[i][c], model_completion=True))
            if c in ("start_timestamp", "end_timestamp", "id"):
                r[c] = v
            else:
                r[c] = None if isnull else f"v{v}"
        rows.append(r)
    return rows


CROSS_CHECK = False


def cvc5_agrees(solver: Any) -> Any:
    """Second opinion on an unsat answer: the same assertions as SMT-LIB text through the cvc5 binary.
    True = cvc5 says unsat too, False = it says something else, None = cvc5 not usable here."""
    import shutil
    import subprocess
    import tempfile
    exe = shutil.which("cvc5")
    if not exe:
        return None
    with tempfile.NamedTemporaryFile("w", suffix=".smt2", delete=False) as f:
        f.write("(set-logic ALL)\n" + solver.to_smt2())
        path = f.name
    try:
        p = subprocess.run([exe, "--lang=smt2", "--tlimit=60000", path], capture_output=True, text=True, timeout=90)
        out = (p.stdout or "").strip().splitlines()
        if any("(error" in l for l in out) or not out:
            return None
        return out[0].strip() == "unsat"
    except Exception:  # noqa
        return None
    finally:
        os.unlink(path)


def run(tier: str) -> int:
    global CROSS_CHECK
    CROSS_CHECK = tier == "thorough"
    chk = core.Check("C11", tier, "model_checking")
    chk.encode(SQLF, "remove_inconsistent_jobs, remove_jobs_outside_of_time_window, update_job_names_by_root_span, "
                     "_remove_orphaned_node_associations: SQLAlchemy statements built by the real methods -> z3 (sa2smt)")
    chk.encode(BASEF, "get_time_window, DataHolder.min_timestamp/max_timestamp (executed on symbolic ints, vlib/symexec)")
    chk.encode(DRV, "otel_to_pv: order of the cleaning calls read from the AST")
    sizes = [3, 4, 5] if tier == "quick" else [3, 4, 5, 6, 7]
    chk.bounds = {"store": f"every store of up to N node rows, N in {sizes} (presence bits, all columns symbolic; ids coded as ints)",
                  "window": "tracked min/max timestamps and time_buffer arbitrary non-negative ints (incl. the 'nothing ingested' defaults)"}
    chk.outside = ["traces with two or more root spans (workflow name then unspecified)", "timestamps beyond 2**62",
                   "SQLite behaviour outside the translated SQL subset", f"stores with more than {max(sizes)} rows"]
    chk.assumptions = ["bounded relational semantics of the SQL subset (vlib/sqlsem.py), validated against real SQLite on every run "
                       "(vlib/sqlvalidate.py) and by replaying every counterexample on real SQLite",
                       "pre-state satisfies the ingestion invariant of C10 (unique span ids; association rows = parent links)",
                       "z3 5.1"]
    chk.explanation = ("the three cleaning transitions, in the order otel_to_pv calls them, composed over a symbolic N-row store; "
                       "negated specification unsat per clause and per execution path of the window computation")
    try:
        _run(chk, sizes)
    except S.NotSupported as e:
        chk.unknown("translate", "sa2smt", 0.0, f"SQL construct not supported by the translator: {e}")
    return chk.finish()


def _run(chk: core.Check, sizes: list[int]) -> None:
    from vlib import sqlvalidate
    t0 = time.time()
    nval, bad = sqlvalidate.validate(seed=chk.seed, rounds=60)
    if bad:
        chk.unknown("sql-evaluator-validation", "sqlite-diff", time.time() - t0,
                    f"model evaluator disagrees with real SQLite on {len(bad)} of {nval} runs: {bad[0]}")
        return
    chk.extra["validation_runs"] = nval
    order = cleaning_order()
    chk.extra["cleaning_order_from_ast"] = order
    if set(order) != set(CLEANERS):
        chk.samples.append({"note": "otel_to_pv does not call all three cleaning steps", "order": order})
    minT, maxT, buf = z3.Ints("minT maxT buf")
    base = [minT >= 0, maxT >= 0, minT <= BIG, maxT <= 2**63 - 1, buf >= 0, buf <= 10**6]
    X.FLOAT_EVENTS.clear()
    paths = capture(order, minT, maxT, buf, base)
    chk.extra["window_paths"] = len(paths)
    if X.FLOAT_EVENTS:
        chk.bounds["window"] = FLOAT_RANGE_NOTE
        chk.extra["float_arithmetic_in_window_computation"] = sorted(set(X.FLOAT_EVENTS))
    for pi, (pc, stmts, exc) in enumerate(paths):
        if exc is not None:
            if isinstance(exc, ValueError) and "time buffer is too large" in str(exc):
                chk.samples.append({"path": pi, "outcome": "ValueError: time buffer too large (documented, outside the claim)"})
                continue
            chk.unknown(f"path{pi}", "symexec", 0.0, f"cleaning raised {type(exc).__name__}: {exc}")
            continue
        # the window the documentation describes, from the same symbolic inputs
        dmin = z3.If(minT > maxT, z3.IntVal(0), minT)
        dmax = z3.If(maxT < minT, z3.IntVal(9223372036854775807), maxT)
        w0, w1 = dmin + buf * 60 * 10**9, dmax - buf * 60 * 10**9
        for N in sizes:
            tabs0, pre = pre_state(N)
            tabs1, trans, _alg = apply_all(dict(tabs0), stmts)
            sp = spec(N, tabs0, tabs1, w0, w1)
            common = pre + trans + list(pc)
            for clause in ("presence", "frame", "names", "associations"):
                s = z3.Solver()
                s.set("timeout", 300_000)
                s.add(common)
                s.add(z3.Not(sp[clause]))
                tq = time.time()
                r = str(s.check())
                dt = time.time() - tq
                nm = f"path{pi}.N={N}.{clause}"
                if r == "unsat":
                    second = cvc5_agrees(s) if (CROSS_CHECK and N <= 4) else None
                    if second is False:
                        chk.unknown(nm, "z3+cvc5", dt, "cvc5 does not confirm z3's unsat on the same SMT-LIB text")
                    else:
                        chk.held(nm, "z3" if second is None else "z3+cvc5", dt, statements=len(stmts))
                elif r == "sat":
                    m = s.model()
                    rows = model_rows(m, tabs0["nodes"])
                    mv = [m.eval(x, model_completion=True).as_long() for x in (minT, maxT, buf)]
                    viol, what = replay_model(rows, mv[0], mv[1], mv[2], order)
                    chk.counterexample(nm, "z3", dt, sig=f"cleaning-{clause}", what=what,
                                       replay={"rows": rows, "min": mv[0], "max": mv[1], "buf": mv[2], "order": order},
                                       reproduced=viol)
                else:
                    chk.unknown(nm, "z3", dt, f"solver answered {r}")
            # vacuity twin: some trace is removed and some trace survives, under the same constraints
            s = z3.Solver()
            s.set("timeout", 120_000)
            s.add(common)
            n0, n1 = tabs0["nodes"], tabs1["nodes"]
            s.add(z3.Or([z3.And(n0.present[i], z3.Not(n1.present[i])) for i in range(N)]))
            s.add(z3.Or([n1.present[i] for i in range(N)]))
            tq = time.time()
            r = str(s.check())
            chk.twin(f"path{pi}.N={N}.twin", "z3", r == "sat", time.time() - tq)
            if r == "sat" and len(chk.samples) < 6:
                m = s.model()
                chk.samples.append({"path": pi, "N": N, "store": model_rows(m, n0),
                                    "after_cleaning": model_rows(m, n1)})
    chk.states = len(chk.obligations)
    chk.transitions = len(chk.obligations)
    chk.extra["states_meaning"] = "solver queries; each covers all stores of N rows"


def replay_file(path: str) -> int:
    rec = json.load(open(path))["replay"]
    viol, what = replay_model(rec["rows"], rec["min"], rec["max"], rec["buf"], rec["order"])
    print(what)
    return 1 if viol else 0
