"""C16 - PV timestamps and OTel nanosecond times convert consistently.

Engine: py2smt (AST of the real functions -> z3 linear integer arithmetic through
an integer model of IEEE-754 binary64).  One query per binade of the input, so
the claim covers EVERY microsecond instant 1970-01-01 .. 2100-01-01.
"""
from __future__ import annotations

import datetime as dt
import json
import os
import random
import time
from fractions import Fraction as Fr
from typing import Any, Optional

import z3

from vlib import core, ieee_int as fp, py2smt as P

UTILS = "tel2puml/utils.py"
PVTEL = "tel2puml/pv_to_tel.py"
K_MAX = 4102444800 * 10**6  # 2100-01-01T00:00:00Z in microseconds
EPOCH = dt.datetime(1970, 1, 1, tzinfo=dt.timezone.utc)


def canonical(k: int) -> str:
    return (EPOCH + dt.timedelta(microseconds=k)).strftime(P.CANONICAL_FORMAT)


def parse_us(s: str) -> Optional[int]:
    try:
        d = dt.datetime.strptime(s, P.CANONICAL_FORMAT).replace(tzinfo=dt.timezone.utc)
    except Exception:
        return None
    return (d - EPOCH) // dt.timedelta(microseconds=1)


def solve(fml: Any, timeout_ms: int = 20_000) -> tuple[str, float, Any]:
    if time.time() > DEADLINE[0]:
        return "unknown", 0.0, None          # wall-clock budget of the whole check is used up: no more queries
    s = z3.Solver()
    s.set("timeout", timeout_ms)
    s.add(fml)
    s.add(P.TZ_CONSTRAINTS)
    t0 = time.time()
    r = str(s.check())
    TZ[0], TZ[1] = 0, 0
    if r == "sat" and Enc.uses_tz:
        TZ[0] = s.model().eval(P.TZOFF, model_completion=True).as_long()
        TZ[1] = s.model().eval(P.TZT, model_completion=True).as_long()
    if os.environ.get("VERIF_DEBUG"):
        import sys
        print(f"[solve] {r} {time.time()-t0:.2f}s", file=sys.stderr, flush=True)
    return r, time.time() - t0, (s.model() if r == "sat" else None)


def bound_obligations(cases: list[tuple[Any, Any, int, int]]) -> Any:
    """A case's interval annotation must contain its value (soundness of the binade enumeration)."""
    return z3.Or([z3.And(g, z3.Or(t < lo, t > hi)) for g, t, lo, hi in cases]) if cases else z3.BoolVal(False)


def int_partitions(lo: int, hi: int) -> list[tuple[int, int]]:
    """[0,0] and the binades of [lo, hi]."""
    out = []
    if lo == 0:
        out.append((0, 0))
        lo = 1
    e = lo.bit_length() - 1
    while (1 << e) <= hi:
        a, b = max(lo, 1 << e), min(hi, (1 << (e + 1)) - 1)
        if a <= b:
            out.append((a, b))
        e += 1
    return out


class Enc:
    """Encoders for the two directions, regenerated from source text on each call."""

    def __init__(self) -> None:
        self.src_utils = open(core.repo_file(UTILS)).read()
        self.src_pvtel = open(core.repo_file(PVTEL)).read()

    uses_tz = False

    def to_pv(self, ctx: fp.Ctx, n: P.SInt) -> P.SPVStr:
        it = P.Interp(self.src_utils, ctx)
        r = it.call("unix_nano_to_pv_string", [n])
        Enc.uses_tz = Enc.uses_tz or it.uses_tz
        if not isinstance(r, P.SPVStr):
            raise P.NotEncodable("unix_nano_to_pv_string does not return a timestamp string")
        return r

    def to_ns(self, ctx: fp.Ctx, s: P.SPVStr) -> P.SInt:
        it = P.Interp(self.src_pvtel, ctx)
        r = it.call("convert_timestamp_to_unix_nano", [s])
        Enc.uses_tz = Enc.uses_tz or it.uses_tz
        if not isinstance(r, P.SInt):
            raise P.NotEncodable("convert_timestamp_to_unix_nano does not return an int")
        return r


DEADLINE = [float('inf')]


def write_tzif(path: str, off: int, t_fallback: int) -> None:
    """A TZif (version 2) zone file: daylight time (off + 3600) until the UTC second t_fallback, standard time (off) after."""
    import struct

    def block(v64: bool, times: list[int], idx: list[int]) -> bytes:
        fmt = ">q" if v64 else ">l"
        types = [(off + 3600, 1, 0), (off, 0, 4)]
        chars = b"VRD\0VRS\0"
        hdr = b"TZif" + b"2" + b"\0" * 15 + struct.pack(">6l", 0, 0, 0, len(times), len(types), len(chars))
        body = b"".join(struct.pack(fmt, t) for t in times) + bytes(idx)
        body += b"".join(struct.pack(">lBB", u, d, a) for u, d, a in types) + chars
        return hdr + body
    early = -(2 ** 31) + 10
    data = block(False, [early], [0]) + block(True, [early, t_fallback], [0, 1]) + b"\n\n"
    with open(path, "wb") as f:
        f.write(data)


TZ = [0, 0]   # [standard offset (seconds east), UTC second of the fall-back transition]


def _in_zone(code: str, arg: Any) -> Any:
    import subprocess
    import tempfile
    d = tempfile.mkdtemp(prefix="c16tz_")
    path = os.path.join(d, "zone")
    try:
        write_tzif(path, TZ[0], TZ[1])
        env = core.child_env({"TZ": ":" + path})
        p = subprocess.run([core.PY, "-c", "import sys,json,time;time.tzset();" + code, json.dumps(arg)], env=env,
                           capture_output=True, text=True, timeout=120)
        return json.loads(p.stdout.strip().splitlines()[-1])
    finally:
        if os.path.exists(path):
            os.unlink(path)
        os.rmdir(d)


def tz_active() -> bool:
    return TZ[0] != 0 or TZ[1] != 0


def real_to_pv(n: int) -> str:
    if tz_active():
        return _in_zone("from tel2puml.utils import unix_nano_to_pv_string as f;print(json.dumps(f(json.loads(sys.argv[1]))))", n)
    from tel2puml.utils import unix_nano_to_pv_string
    return unix_nano_to_pv_string(n)


def real_to_ns(s: str) -> int:
    if tz_active():
        return _in_zone("from tel2puml.pv_to_tel import convert_timestamp_to_unix_nano as f;print(json.dumps(f(json.loads(sys.argv[1]))))", s)
    from tel2puml.pv_to_tel import convert_timestamp_to_unix_nano
    return convert_timestamp_to_unix_nano(s)


def run(tier: str) -> int:
    chk = core.Check("C16", tier, "model_checking")
    chk.encode(UTILS, "unix_nano_to_pv_string, datetime_to_pv_string (AST -> z3 via py2smt)")
    chk.encode(PVTEL, "convert_timestamp_to_unix_nano (AST -> z3 via py2smt)")
    chk.bounds = {
        "instants": "every k microseconds since the epoch with 0 <= k <= 4102444800*10**6 (1970-01-01..2100-01-01), "
                    "no sampling: one LIA query per binade of the input",
        "monotonicity": "every pair n1 <= n2 of integer nanosecond values in the same range (not only multiples of 1000)",
    }
    chk.outside = ["instants before 1970 or after 2100 (first forward failure is at n >= 2**62, Feb 2116)",
                   "time zones beyond the model: standard offset (multiple of 15 minutes within +-12 h) with ONE fall-back transition; spring-forward gaps and several transitions are not modelled"]
    chk.assumptions = list(P.CONTRACTS) + [
        "z3 5.1 linear integer arithmetic",
        "the stdlib contracts above are validated on each run against CPython on boundary and seeded random instants",
    ]
    chk.explanation = ("py2smt translation of the two converters; negated property unsat per input binade; "
                       "sat-twins guard against vacuity; interval annotations of every float case are proved")
    DEADLINE[0] = time.time() + (480 if tier == "quick" else 3000)
    try:
        Enc.uses_tz = False
        enc = Enc()
        _run(chk, enc, tier)
    except P.NotEncodable as e:
        chk.unknown("encode", "py2smt", 0.0, f"construct not encodable: {e}")
    except TooManyUnknowns:
        chk.inconclusive.append("stopped after 4 solver time-outs: remaining queries not asked")
    if Enc.uses_tz and not chk.violations:
        # the converters went through naive local-time operations: the queries above quantify over every FIXED-offset
        # process time zone only; zones with DST transitions (folds/gaps) are not modelled, so this is not a verdict
        chk.unknown("time-zone-dependence", "py2smt", 0.0,
                    "the code interprets naive datetimes in the process time zone; held for every standard offset with one "
                    "fall-back transition, but spring-forward gaps / several transitions are not modelled")
    return chk.finish()


def _fields_faithful(chk: core.Check, s: P.SPVStr, name: str) -> bool:
    """The string must show every field of the instant; otherwise ask z3 for two instants it cannot tell apart."""
    if s.fields == P.FULL_FIELDS:
        return True
    k1, k2 = z3.Int("k1"), z3.Int("k2")
    f1, f2 = P.field_terms(k1), P.field_terms(k2)
    same = z3.And([f1[f] == f2[f] for f in sorted(s.fields)])
    r, secs, m = solve(z3.And(0 <= k1, k1 < k2, k2 <= K_MAX, same))
    if r != "sat":
        chk.unknown(name, "z3", secs, f"field-loss query answered {r}")
        return False
    a, b = m[k1].as_long(), m[k2].as_long()
    sa, sb = real_to_pv(1000 * a), real_to_pv(1000 * b)
    if sa == sb or parse_us(sa) != a or parse_us(sb) != b:
        chk.counterexample(
            name, "z3", secs, sig="format-drops-field",
            what=f"instants {a}us and {b}us are rendered as {sa!r} and {sb!r}: the string does not determine the instant",
            replay={"tz": list(TZ), "kind": "to_pv_pair", "k": [a, b]}, reproduced=True)
        return False
    # the model was built on the over-approximation "an unmodelled directive shows nothing"; z3 has shown that the
    # format cannot be PROVED faithful - look for a real witness among day/hour boundaries of the whole range
    t0 = time.time()
    day = 86_400_000_000
    for d in range(0, K_MAX // day + 1):
        for off in (0, 12 * 3600 * 10**6 + 34_567_891, day - 1):
            kv = d * day + off
            if kv > K_MAX:
                continue
            if real_to_pv(1000 * kv) != canonical(kv):
                chk.counterexample(
                    name, "z3+witness-search", secs + time.time() - t0, sig="format-not-faithful",
                    what=f"unix_nano_to_pv_string({1000*kv}) = {real_to_pv(1000*kv)!r}, the instant is {canonical(kv)!r} "
                         f"(format uses directives {P.UNKNOWN_DIRECTIVES or 'that drop a field'})",
                    replay={"tz": list(TZ), "kind": "to_pv", "k": kv}, reproduced=True)
                return False
    chk.unknown(name, "z3", secs, f"format with unmodelled directives {P.UNKNOWN_DIRECTIVES} could not be proved faithful "
                "and no concrete witness was found")
    return False


class TooManyUnknowns(Exception):
    pass


def _run(chk: core.Check, enc: Enc, tier: str) -> None:
    k = z3.Int("k")
    rng = random.Random(chk.seed)
    # a mutated converter can make every query hard; after a few solver time-outs the run stops being informative
    orig_unknown = chk.unknown
    count = [0]

    def unknown(name: str, engine: str, seconds: float, why: str, **detail: Any) -> None:
        orig_unknown(name, engine, seconds, why, **detail)
        if "solver answered unknown" in why or "query answered unknown" in why:
            count[0] += 1
            if count[0] >= 3 and not skip[0]:
                skip[0] = True
                chk.inconclusive.append("3 solver time-outs in this phase: its remaining queries were not asked")
    chk.unknown = unknown  # type: ignore[method-assign]
    skip = [False]

    def new_phase() -> None:
        count[0] = 0
        skip[0] = False

    # ---------------- (a) forward: to_pv(1000k) denotes k -------------------
    parts = int_partitions(0, 1000 * K_MAX)
    fwd_ok = True
    validated = 0
    sample_done = False
    new_phase()
    for (lo, hi) in parts:
        if skip[0]:
            break
        klo, khi = -(-lo // 1000), hi // 1000
        if klo > khi:
            continue
        ctx = fp.Ctx()
        base = z3.And(k >= klo, k <= khi)
        n_in = P.SInt([(base, 1000 * k, 1000 * klo, 1000 * khi)])
        s = enc.to_pv(ctx, n_in)
        nm = f"a.forward[n in 2^{lo.bit_length()-1 if lo else 0}]"
        if not sample_done:
            sample_done = True
            if not _fields_faithful(chk, s, "a.format-shows-all-fields"):
                fwd_ok = False
                break
            if not (s.z and s.layout_iso):
                chk.unknown("a.layout", "py2smt", 0.0, "output layout is not the PV layout %Y-%m-%dT%H:%M:%S.%fZ")
        cases = s.us.cases
        r0, t0, _ = solve(bound_obligations(cases))
        if r0 != "unsat":
            chk.unknown(nm + ".bounds", "z3", t0, f"interval annotation query answered {r0}")
            continue
        r, secs, m = solve(z3.Or([z3.And(g, t != k) for g, t, _, _ in cases]))
        if r == "unsat":
            chk.held(nm, "z3", secs + t0, cases=len(cases), k_range=[klo, khi])
        elif r == "sat":
            kv = m[k].as_long()
            got = real_to_pv(1000 * kv)
            chk.counterexample(nm, "z3", secs, sig="forward-wrong-instant",
                               what=f"unix_nano_to_pv_string({1000*kv}) = {got!r}, expected {canonical(kv)!r}",
                               replay={"tz": list(TZ), "kind": "to_pv", "k": kv}, reproduced=(got != canonical(kv)))
            fwd_ok = False
            break
        else:
            chk.unknown(nm, "z3", secs, f"solver answered {r}")
        # translator validation: concrete instants through the encoding and the real function
        pts = {klo, khi, (klo + khi) // 2} | {rng.randint(klo, khi) for _ in range(3 if tier == "quick" else 12)}
        twin_done = False
        sv = z3.Solver()
        sv.add(P.TZOFF == 0, P.TZT == 86400)   # validation points are compared with the real function in this process (UTC)
        sv.add(z3.Or([z3.And(g, z3.Int("out") == t) for g, t, _, _ in cases]))
        for kv in sorted(pts):
            sv.push()
            sv.add(k == kv)
            if str(sv.check()) != "sat":
                chk.unknown(nm + ".validate", "z3", 0.0, f"encoding has no value at k={kv}")
                sv.pop()
                continue
            enc_us = sv.model()[z3.Int("out")].as_long()
            sv.pop()
            real_us = parse_us(real_to_pv(1000 * kv))
            validated += 1
            if len(chk.samples) < 6 and kv not in (klo, khi):
                chk.samples.append({"validation_point_us": kv, "encoding_gives_us": enc_us, "real_function_gives": real_to_pv(1000 * kv)})
            if enc_us == kv and not twin_done:
                # vacuity twin at a concrete point: the encoding reaches the assertion and satisfies it there
                twin_done = True
                chk.twin(nm + ".twin", "z3", True, 0.0, k=kv)
            if real_us is not None and real_us != enc_us:
                chk.unknown(nm + ".validate", "z3", 0.0,
                            f"encoding ({enc_us}) and real function ({real_us}) disagree at k={kv}: stdlib contract wrong")
    chk.samples.append({"query": "a.forward", "meaning": "exists k in binade: to_pv(1000k) shows an instant != k  (unsat expected)"})

    # ---------------- (b) monotone over arbitrary integer nanoseconds -------
    # b1 (single copy): instant(n) is A nearest microsecond of n, |1000*M - n| <= 500.  Any function with that
    #    property is monotone (n1<n2 => M2 >= (n2-500)/1000 > (n1+500)/1000 - 1 >= M1 - 1).
    # b2 (two copies): only for binades where b1 does not hold (float error > 0.5 us, n >= 2**53): adjacent-binade
    #    windows, chained by transitivity through the powers of two.
    n1, n2 = z3.Int("n1"), z3.Int("n2")
    nparts = int_partitions(0, 1000 * K_MAX)
    if fwd_ok:
        nearest: dict[int, bool] = {i: False for i in range(len(nparts))}
        b1_timeouts = [0]
        lemma_ds: set[int] = set()
        new_phase()
        for pi_ in reversed(range(len(nparts))):      # present-day magnitudes first
            lo1, hi1 = nparts[pi_]
            if skip[0]:
                continue
            ctx = fp.Ctx()
            s1 = enc.to_pv(ctx, P.SInt([(z3.And(n1 >= lo1, n1 <= hi1), n1, lo1, hi1)]))
            nm = f"b1.nearest-us[n in 2^{lo1.bit_length()-1 if lo1 else 0}]"
            bad = z3.Or([z3.And(g, z3.Or(1000 * t - n1 > 500, n1 - 1000 * t > 500)) for g, t, _, _ in s1.us.cases])
            r, secs, m = solve(bad, 20_000)
            nearest[pi_] = (r == "unsat")
            if r == "unknown":
                # not a verdict either way: this binade is left to the pair queries of b2
                b1_timeouts[0] += 1
                if b1_timeouts[0] >= 6:
                    skip[0] = True
            if r == "unsat":
                chk.held(nm, "z3", secs, cases=len(s1.us.cases))
        chk.extra["b1_nearest_us_binades"] = sum(nearest.values())
        new_phase()
        for i in reversed(range(len(nparts))):
            lo1, hi1 = nparts[i]
            if skip[0]:
                break
            for j in (i, i + 1):
                if j >= len(nparts) or (nearest[i] and nearest[j]):
                    continue
                lo2, hi2 = nparts[j]
                ctx = fp.Ctx()
                s1 = enc.to_pv(ctx, P.SInt([(z3.And(n1 >= lo1, n1 <= hi1), n1, lo1, hi1)]))
                s2 = enc.to_pv(ctx, P.SInt([(z3.And(n2 >= lo2, n2 <= hi2), n2, lo2, hi2)]))
                bad = z3.And(z3.Or([z3.And(g1, g2, n1 <= n2, t1 > t2)
                                    for g1, t1, _, _ in s1.us.cases for g2, t2, _, _ in s2.us.cases]),
                             *fp.monotone_lemmas(ctx))
                lemma_ds.update(d for _, _, d, _ in ctx.roundings)
                nm = f"b2.monotone[2^{lo1.bit_length()-1 if lo1 else 0},2^{lo2.bit_length()-1 if lo2 else 0}]"
                r, secs, m = solve(bad)
                if r == "unsat":
                    chk.held(nm, "z3", secs)
                elif r == "sat":
                    a, b = m[n1].as_long(), m[n2].as_long()
                    sa, sb = real_to_pv(a), real_to_pv(b)
                    malformed = parse_us(sa) is None or parse_us(sb) is None
                    chk.counterexample(nm, "z3", secs, sig="order-not-preserved",
                                       what=(f"{a} <= {b} ns but {sa!r} > {sb!r}" if sa > sb else
                                             f"{a} <= {b} ns are rendered as {sa!r} and {sb!r}: not a well-formed PV timestamp"),
                                       replay={"tz": list(TZ), "kind": "order", "n": [a, b]}, reproduced=(sa > sb or malformed))
                    break
                else:
                    chk.unknown(nm, "z3", secs, f"solver answered {r}")
        if lemma_ds:
            ok, secs = fp.check_rhe_monotone(sorted(lemma_ds))
            if ok:
                chk.held("b2.lemma.rhe-monotone", "z3", secs, denominators=len(lemma_ds))
            else:
                chk.unknown("b2.lemma.rhe-monotone", "z3", secs, "generic monotonicity lemma of round-half-even not proved")
        chk.samples.append({"query": "b.monotone", "meaning": "b1: exists n with |1000*instant(n) - n| > 500 (unsat => monotone there); "
                            "b2: exists n1<=n2 in adjacent binades with instant(n1) > instant(n2), for the binades where b1 is sat"})

    # ---------------- (c) backward and (d) round trip -----------------------
    back_ok = True
    d_unknown = [0]
    new_phase()
    for (klo, khi) in int_partitions(0, K_MAX):
        if skip[0]:
            break
        ctx = fp.Ctx()
        base = z3.And(k >= klo, k <= khi)
        s_in = P.SPVStr(P.SInt([(base, k, klo, khi)]), P.FULL_FIELDS, True, True)
        nm = f"c.backward[k in 2^{klo.bit_length()-1 if klo else 0}]"
        ns = enc.to_ns(ctx, s_in)
        r0, t0, _ = solve(bound_obligations(ns.cases))
        if r0 != "unsat":
            chk.unknown(nm + ".bounds", "z3", t0, f"interval annotation query answered {r0}")
            continue
        r, secs, m = solve(z3.Or([z3.And(g, t != 1000 * k) for g, t, _, _ in ns.cases]))
        if r == "unsat":
            chk.held(nm, "z3", secs + t0, cases=len(ns.cases), k_range=[klo, khi])
        elif r == "sat":
            kv = m[k].as_long()
            got = real_to_ns(canonical(kv))
            chk.counterexample(nm, "z3", secs, sig="backward-wrong-instant",
                               what=f"convert_timestamp_to_unix_nano({canonical(kv)!r}) = {got}, expected {1000*kv}",
                               replay={"tz": list(TZ), "kind": "to_ns", "k": kv}, reproduced=(got != 1000 * kv))
            back_ok = False
            chk.extra["c_backward_note"] = "stopped at the first counterexample; remaining binades not queried"
            break
        else:
            chk.unknown(nm, "z3", secs, f"solver answered {r}")
        twin_done = False
        # translator validation for the backward direction
        sv = z3.Solver()
        sv.add(P.TZOFF == 0, P.TZT == 86400)
        sv.add(z3.Or([z3.And(g, z3.Int("out") == t) for g, t, _, _ in ns.cases]))
        pts = {klo, khi} | {rng.randint(klo, khi) for _ in range(3 if tier == "quick" else 12)}
        for kv in sorted(pts):
            sv.push(); sv.add(k == kv)
            if str(sv.check()) != "sat":
                chk.unknown(nm + ".validate", "z3", 0.0, f"encoding has no value at k={kv}")
                sv.pop(); continue
            enc_ns = sv.model()[z3.Int("out")].as_long()
            sv.pop()
            validated += 1
            if enc_ns == 1000 * kv and not twin_done:
                twin_done = True
                chk.twin(nm + ".twin", "z3", True, 0.0, k=kv)
            real_ns = real_to_ns(canonical(kv))
            if real_ns != enc_ns:
                chk.unknown(nm + ".validate", "z3", 0.0,
                            f"encoding ({enc_ns}) and real function ({real_ns}) disagree at k={kv}: stdlib contract wrong")
        # (d) PV -> OTel -> PV
        if back_ok and fwd_ok and d_unknown[0] < 3:
            nm = f"d.roundtrip[k in 2^{klo.bit_length()-1 if klo else 0}]"
            s2 = enc.to_pv(ctx, ns)
            bad = z3.Or([z3.And(g, t != k) for g, t, _, _ in s2.us.cases])
            r, secs, m = solve(bad)
            shape_ok = (s2.fields == P.FULL_FIELDS and s2.z and s2.layout_iso)
            if r == "unsat" and shape_ok:
                chk.held(nm, "z3", secs, cases=len(s2.us.cases))
            elif r == "sat":
                kv = m[k].as_long()
                got = real_to_pv(real_to_ns(canonical(kv)))
                chk.counterexample(nm, "z3", secs, sig="roundtrip-changes-timestamp",
                                   what=f"PV->OTel->PV maps {canonical(kv)!r} to {got!r}",
                                   replay={"tz": list(TZ), "kind": "roundtrip", "k": kv}, reproduced=(got != canonical(kv)))
            else:
                d_unknown[0] += 1
                orig_unknown(nm, "z3", secs, f"solver answered {r} / layout preserved: {shape_ok}")
    chk.samples.append({"query": "c.backward", "meaning": "exists k in binade: to_ns(PV string of k) != 1000k (unsat expected)"})
    chk.extra["validation_runs"] = validated
    chk.states = len(chk.obligations)
    chk.transitions = len(chk.obligations)
    chk.extra["states_meaning"] = "number of solver queries (each covers a whole binade of instants symbolically)"

    if tier == "thorough":
        _beyond_bound(chk, enc)
        _small_format_crosscheck(chk)


def _beyond_bound(chk: core.Check, enc: Enc) -> None:
    """Informational: where does the forward direction first fail outside the claimed range?"""
    k = z3.Int("k")
    lo, hi = 2**62, 2**63 - 1
    klo, khi = -(-lo // 1000), hi // 1000
    ctx = fp.Ctx()
    s = enc.to_pv(ctx, P.SInt([(z3.And(k >= klo, k <= khi), 1000 * k, 1000 * klo, 1000 * khi)]))
    r, secs, m = solve(z3.Or([z3.And(g, t != k) for g, t, _, _ in s.us.cases]))
    info: dict[str, Any] = {"range": "2**62 <= n < 2**63", "answer": r, "seconds": round(secs, 2)}
    if r == "sat":
        kv = m[k].as_long()
        try:
            info["witness"] = {"n": 1000 * kv, "real": real_to_pv(1000 * kv), "exact": canonical(kv)}
        except Exception as e:  # noqa
            info["witness"] = {"n": 1000 * kv, "error": repr(e)}
    chk.extra["beyond_bound_probe_not_a_claim"] = info


def _small_format_crosscheck(chk: core.Check) -> None:
    """Cross-check the integer model of RNE against z3's FP theory on a small format (5 exponent, 11 significand bits)."""
    p = 11
    sort = z3.FPSort(5, p)
    t_tot = 0.0
    bad = 0
    n = 0
    for c in (3.0, 10.0, 7.0):
        ctx = fp.Ctx(p=p)
        a = z3.Int("a")
        lo, hi = 1, 2**(p - 1) - 1
        xs = fp.from_int(ctx, z3.And(a >= lo, a <= hi), a, lo, hi)
        ys = fp.div_const(ctx, xs, Fr(c))
        # FP side
        abv = z3.Int2BV(a, 16)
        fa = z3.fpToFP(z3.RNE(), abv, sort)  # signed bv -> fp
        fd = z3.fpDiv(z3.RNE(), fa, z3.FPVal(c, sort))
        for y in ys:
            # claim: fd == m * 2^q  (as a real)
            val = z3.ToReal(y.m) * z3.RealVal(Fr(2) ** y.q)
            fml = z3.And(a >= lo, a <= hi, y.guard, z3.fpToReal(fd) != val)
            s = z3.Solver(); s.set("timeout", 60000); s.add(fml)
            t0 = time.time(); r = str(s.check()); t_tot += time.time() - t0
            n += 1
            if r != "unsat":
                bad += 1
    if bad:
        chk.unknown("ieee-model-crosscheck", "z3-fp", t_tot, f"{bad}/{n} small-format queries not unsat")
    else:
        chk.held("ieee-model-crosscheck(5,11)", "z3-fp", t_tot, queries=n)


def replay_file(path: str) -> int:
    rec = json.load(open(path))["replay"]
    kind = rec["kind"]
    tz = rec.get("tz", [0, 0])
    TZ[0], TZ[1] = (tz if isinstance(tz, list) else [int(tz), 0])
    if kind == "to_pv":
        kv = rec["k"]; got = real_to_pv(1000 * kv); print(got, canonical(kv)); return int(got != canonical(kv))
    if kind == "to_ns":
        kv = rec["k"]; got = real_to_ns(canonical(kv)); print(got, 1000 * kv); return int(got != 1000 * kv)
    if kind == "roundtrip":
        kv = rec["k"]; got = real_to_pv(real_to_ns(canonical(kv))); print(got, canonical(kv)); return int(got != canonical(kv))
    if kind == "order":
        a, b = rec["n"]; sa, sb = real_to_pv(a), real_to_pv(b); print(sa, sb); return int(sa > sb or parse_us(sa) is None or parse_us(sb) is None)
    if kind == "to_pv_pair":
        a, b = rec["k"]; sa, sb = real_to_pv(1000 * a), real_to_pv(1000 * b); print(sa, sb); return int(sa == sb)
    return 2
