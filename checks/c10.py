"""C10 - ingestion stores each span once whatever the batching or duplication (CrossHair on the model store)."""
from __future__ import annotations

import json
import os
import time
from typing import Any

from vlib import core

HARNESS = os.path.join(core.VERIF, "harness", "c10.py")
SQLF = "tel2puml/otel_to_pv/data_holders/sql_data_holder/sql_dataholder.py"


def conditions(tier: str) -> list[core.Cond]:
    conds = []
    tmo = 400 if tier == "quick" else 1800

    def add(n: int, b: int, k: int, pf: list[int], pp: list[int]) -> None:
        cfg = {"n": n, "batch": b, "split": k, "prefix": pf, "pprefix": pp}
        conds.append(core.Cond(f"store n={n} batch={b} split={k} id-prefix={pf} parent-prefix={pp}", HARNESS, "check", cfg, tmo))
    if tier == "quick":
        for b in range(1, 5):          # n=3: everything
            for k in range(0, 3):
                add(3, b, k, [], [])
        for b in (2, 3):               # n=4: the batch sizes that cut the stream, sharded x4
            for k in (0, 2):
                for pf in ([0], [1]):
                    for pp in ([0], [1]):
                        add(4, b, k, pf, pp)
    else:
        for b in range(1, 6):
            for k in range(0, 4):
                for pf in ([0], [1]):
                    add(4, b, k, pf, [])
        for b in (2, 3, 6):
            for k in (0, 2, 3):
                for pf in ([0, 0], [0, 1], [1, 0], [1, 1], [1, 2]):
                    for pp in ([0], [1]):
                        add(5, b, k, pf, pp)
    conds.append(core.Cond("twin", HARNESS, "twin", {"n": 4, "batch": 2, "split": 2, "prefix": [], "pprefix": []}, tmo, expect_violation=True))
    return conds


def _replay(res: core.CondResult) -> tuple[bool, str, str, dict[str, Any]]:
    out = core.replay_call(HARNESS, "replay", res.args or [], res.cond.cfg)
    if "error" in out:
        return False, "replay-error", out["error"][-600:], {}
    return bool(out["violates"]), out["sig"], out["what"], {"replay_result": out}


def run(tier: str) -> int:
    chk = core.Check("C10", tier, "model_checking")
    chk.encode(SQLF, "SQLDataHolder._save_data, add_node_relations, convert_otel_event_to_node_model, commit_batched_unique_data_to_database, "
                     "commit_batched_data_to_database, batch_insert_*, check_and_filter_non_unique_nodes_and_associations, "
                     "get_event_ids_existing_in_db, _update_node_relations_from_node, __exit__ (executed by CrossHair on the model store)")
    chk.encode("tel2puml/otel_to_pv/ingest_otel_data.py", "IngestData.load_to_data_holder")
    chk.encode("tel2puml/otel_to_pv/data_holders/base.py", "DataHolder.save_data, __exit__")
    chk.encode("tel2puml/otel_to_pv/data_holders/sql_data_holder/data_model.py", "unique / primary-key constraints (read into the model store schema)")
    chk.bounds = {"stream": "EVERY equality pattern of span ids (duplicates anywhere) x each span with or without a parent link, for streams of "
                            "3 spans (quick: all batch sizes 1..4, all splits) and 4 spans (quick: batch 2,3 x split none/middle; thorough: "
                            "batch 1..5 x every split); thorough adds 5 spans (batch 2,3,6 x split none/2/3)",
                  "configuration": "batch size x split of the stream into two runs on one store (fresh holder, same store)"}
    chk.outside = ["streams longer than 5 spans", "ORM object state after a failed flush (expired/detached instances) - shows at replay on real SQLite only",
                   "duplicates that differ in trace id are covered only through the unique constraint read from the data model"]
    chk.assumptions = ["model store semantics (vlib/modelstore.py) validated against real SQLite on every run", "CrossHair path exhaustion"]
    chk.explanation = "bounded exhaustion through CrossHair: every duplicate placement against every batch boundary and run split; oracle = first occurrences + their links"
    from vlib import sqlvalidate
    t0 = time.time()
    nval, bad = sqlvalidate.validate(seed=chk.seed, rounds=60)
    if bad:
        chk.unknown("model-store-validation", "sqlite-diff", time.time() - t0, f"model store disagrees with SQLite: {bad[0][:500]}")
        return chk.finish()
    chk.extra["validation_runs"] = nval
    conds = conditions(tier)
    results = core.run_conds(conds)
    core.handle_crosshair_results(chk, results, _replay)
    chk.samples = [{"condition": r.cond.name, "paths": r.paths, "status": r.status} for r in results[:: max(1, len(results) // 6)]][:8]
    chk.extra["conditions"] = len(conds)
    chk.extra["paths_explored_total"] = sum(r.paths for r in results)
    return chk.finish()


def replay_file(path: str) -> int:
    rec = json.load(open(path))["replay"]
    out = core.replay_call(HARNESS, "replay", rec["args"], rec["cfg"])
    print(json.dumps(out, indent=1))
    return 1 if out.get("violates") else 0
