"""C08 - call trees are sequenced exactly as the sequencing rules specify (CrossHair)."""
from __future__ import annotations

import itertools
import json
import os
from typing import Any

from vlib import core

HARNESS = os.path.join(core.VERIF, "harness", "c08.py")
SRC = "tel2puml/otel_to_pv/sequence_otel.py"


def canon(parents: list[int], i: int = 0) -> str:
    kids = [k for k, p in enumerate(parents) if p == i]
    return "(" + "".join(sorted(canon(parents, k) for k in kids)) + ")"


def skeletons(n: int) -> list[list[int]]:
    out, seen = [], set()
    for combo in itertools.product(*[range(i) for i in range(1, n)]):
        parents = [-1] + list(combo)
        c = canon(parents)
        if c not in seen:
            seen.add(c)
            out.append(parents)
    return out


def sibling_sets(parents: list[int]) -> dict[int, list[int]]:
    ch: dict[int, list[int]] = {}
    for i, p in enumerate(parents):
        if p >= 0:
            ch.setdefault(p, []).append(i)
    return ch


def group_assignments(kids: list[int], singles: bool) -> list[dict[int, str]]:
    """assignments of children to prior-information groups, up to renaming of the group ids"""
    if len(kids) == 1:
        return [{}, {kids[0]: "g1"}] if singles else [{}]
    out = []
    for combo in itertools.product([None, "g1", "g2"], repeat=len(kids)):
        used = [g for g in combo if g]
        if used and used[0] != "g1":
            continue  # canonical: first grouped child is in g1
        out.append({k: g for k, g in zip(kids, combo) if g})
    return out


def conditions(tier: str) -> list[core.Cond]:
    conds: list[core.Cond] = []
    nmax = 4 if tier == "quick" else 5
    tmo = 150 if tier == "quick" else 1500
    for n in range(2, nmax + 1):
        for parents in skeletons(n):
            sibs = sibling_sets(parents)
            types = [f"T{i}" for i in range(n)]
            per_set = [group_assignments(k, tier == "thorough" and n <= 4) for k in sibs.values()]
            for combo in itertools.product(*per_set):
                gm: dict[str, dict[str, str]] = {}
                for (p, _), asg in zip(sibs.items(), combo):
                    for k, g in asg.items():
                        gm.setdefault(types[p], {})[types[k]] = g + f"_{p}"
                # a configured group none of whose types occurs among the children (documented example shape)
                gm.setdefault(types[0], {})["ZZ"] = "g9"
                grouped = any(asg for asg in combo)
                for a in (False, True):
                    orders = ["fwd", "rev"] if (n >= 3 and (not grouped or tier == "thorough")) else ["fwd"]
                    if n == 5 and grouped and max(len(k) for k in sibs.values()) >= 4 and a:
                        pass
                    for order in orders:
                        cfg = {"parents": parents, "types": types, "async": a, "group_map": gm,
                               "rename": {}, "order": order, "sorted_starts": n >= 5}
                        name = f"links n={n} tree={canon(parents)} async={int(a)} groups={json.dumps(gm, sort_keys=True)} order={order}"
                        conds.append(core.Cond(name, HARNESS, f"check{n}", cfg, tmo))
            # shared types: the same (parent type, child type) rule applies at several places
            same = ["R"] + ["A"] * (n - 1)
            for gm2 in ({"R": {"A": "g1"}}, {"R": {"A": "g1"}, "A": {"A": "g2"}}):
                for a in (False, True):
                    cfg = {"parents": parents, "types": same, "async": a, "group_map": gm2, "rename": {}, "order": "fwd", "sorted_starts": n >= 5}
                    conds.append(core.Cond(f"links-sametype n={n} tree={canon(parents)} async={int(a)} groups={json.dumps(gm2, sort_keys=True)}",
                                           HARNESS, f"check{n}", cfg, tmo))
    # vacuity twins: one per span count
    for n in range(2, nmax + 1):
        parents = skeletons(n)[-1]
        cfg = {"parents": parents, "types": [f"T{i}" for i in range(n)], "async": True, "group_map": {}, "rename": {}, "order": "fwd"}
        conds.append(core.Cond(f"twin n={n}", HARNESS, f"twin{n}", cfg, tmo, expect_violation=True))
    # renaming: types symbolic
    for n in range(2, min(nmax, 4) + 1):
        for parents in skeletons(n):
            for rules in ({"A": {"mapped": "M", "children": ["C"]}},
                          {"A": {"mapped": "M", "children": ["C"]}, "B": {"mapped": "N", "children": ["C"]}},
                          {"A": {"mapped": "M", "children": []}}):
                for a in (False, True):
                    times: list[int] = []
                    for i in range(n):
                        times += [10 * i + 1, 10 * i + 14]  # consecutive siblings overlap
                    cfg = {"kind": "rename", "parents": parents, "async": a, "times": times, "order": "fwd",
                           "rename": rules, "group_map": {"M": {"A": "g1", "B": "g1"}, "A": {"B": "g2", "C": "g2"}}}
                    conds.append(core.Cond(f"rename n={n} tree={canon(parents)} rules={json.dumps(rules, sort_keys=True)} async={int(a)}",
                                           HARNESS, "rename", cfg, tmo))
    conds.append(core.Cond("twin rename", HARNESS, "rename_twin",
                           {"kind": "rename", "parents": [-1, 0, 0], "async": True, "times": [1, 14, 11, 24, 21, 34],
                            "order": "fwd", "rename": {"A": {"mapped": "M", "children": ["C"]}}, "group_map": {}},
                           tmo, expect_violation=True))
    conds.append(core.Cond("fields (symbolic strings, real timestamp rendering)", HARNESS, "fields", {"kind": "fields"}, tmo))
    conds.append(core.Cond("twin fields", HARNESS, "fields_twin", {"kind": "fields"}, tmo, expect_violation=True))
    return conds


def _replay(res: core.CondResult) -> tuple[bool, str, str, dict[str, Any]]:
    out = core.replay_call(HARNESS, "replay", res.args or [], res.cond.cfg)
    if "error" in out:
        return False, "replay-error", out["error"][-600:], {}
    return bool(out["violates"]), out["sig"], out["what"], {"replay_result": out}


def run(tier: str) -> int:
    chk = core.Check("C08", tier, "model_checking")
    chk.encode(SRC, "sequence_otel_jobs, sequence_otel_event_job, sequence_otel_event_ancestors, "
                    "group_events_using_async_information, sequence_groups_of_otel_events_asynchronously, "
                    "order_groups_by_start_timestamp, get_root_event_from_event_id_to_event_map, "
                    "update_event_type(s)_based_on_children (executed symbolically by CrossHair)")
    chk.encode("tel2puml/utils.py", "unix_nano_to_pv_string (real in the 'fields' condition, identity stub elsewhere)")
    nmax = 4 if tier == "quick" else 5
    chk.bounds = {
        "spans": f"every rooted tree shape with 2..{nmax} spans (children listed in both orders)",
        "instants": "start/end of every span: unbounded symbolic integers (0 <= start <= end)",
        "configuration": "sync/async x every assignment of siblings to <=2 prior-information groups (+ a configured group with "
                         "no matching child) x shared-type variants; rename rules over a 3-type alphabet with symbolic types",
    }
    chk.outside = ["siblings with equal start times (excluded by the property)",
                   "a span ending exactly when a sibling starts (documentation does not say whether touching windows overlap)",
                   f"trees with more than {nmax} spans", "rename rules whose listed child types themselves have a rule (result depends on arrival order)"]
    chk.assumptions = ["CrossHair 0.0.110 / z3 explore every feasible path ('Confirmed over all paths')",
                       "unix_nano_to_pv_string replaced by a tagging identity in link conditions (its correctness is C16); tqdm silenced",
                       "reference semantics written from docs/user/sequencer_HOWTO.md (harness/c08.py: ref_layers/ref_links/ref_types)"]
    chk.explanation = ("one CrossHair condition per concrete configuration; inside it the 2n instants are symbolic, so every relative "
                       "order of start/end times is covered; real pipeline output compared with a rule-by-rule reference")
    conds = conditions(tier)
    results = core.run_conds(conds)
    core.handle_crosshair_results(chk, results, _replay)
    chk.samples = [{"condition": r.cond.name, "cfg": r.cond.cfg, "paths": r.paths, "status": r.status}
                   for r in results[:: max(1, len(results) // 8)]][:10]
    chk.extra["conditions"] = len(conds)
    chk.extra["paths_explored_total"] = sum(r.paths for r in results)
    return chk.finish()


def replay_file(path: str) -> int:
    rec = json.load(open(path))["replay"]
    out = core.replay_call(HARNESS, "replay", rec["args"], rec["cfg"])
    print(json.dumps(out, indent=1))
    return 1 if out.get("violates") else 0
