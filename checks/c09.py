"""C09 - unique-graph selection keeps one trace per distinct call-tree shape.

Q1  hash canonicity: AST of compute_graph_hash_from_event_ids interpreted over symbolic labels (z3 strings + UF hash)
Q2  candidate roots / representative selection statements: sa2smt (z3)
Q3  paging, child maps, hash insertion, selection: CrossHair over the real code on the model store
"""
from __future__ import annotations

import itertools
import json
import os
import time
from typing import Any, Optional

import z3

from vlib import core, minipy as MP, sqlsem as S, symexec as X

SQLF = "tel2puml/otel_to_pv/data_holders/sql_data_holder/sql_dataholder.py"
HARNESS = os.path.join(core.VERIF, "harness", "c09.py")
NCOLS = ["id", "job_name", "job_id", "event_type", "event_id", "start_timestamp", "end_timestamp",
         "application_name", "parent_event_id"]


# --------------------------------------------------------------------------
# Q1
# --------------------------------------------------------------------------
class Node:
    def __init__(self, event_id: str, event_type: Any, parent_event_id: Optional[str]):
        self.event_id, self.event_type, self.parent_event_id = event_id, event_type, parent_event_id
        self.job_id, self.job_name = "j", "n"


def skeletons(n: int) -> list[list[int]]:
    def canon(parents: list[int], i: int = 0) -> str:
        return "(" + "".join(sorted(canon(parents, k) for k, p in enumerate(parents) if p == i)) + ")"
    out, seen = [], set()
    for combo in itertools.product(*[range(i) for i in range(1, n)]):
        parents = [-1] + list(combo)
        c = canon(parents)
        if c not in seen:
            seen.add(c)
            out.append(parents)
    return out


def build_nodes(parents: list[int], labels: list[Any], tag: str, reverse: bool = False) -> tuple[Node, list[Node]]:
    nodes = [Node(f"{tag}{i}", labels[i], (f"{tag}{parents[i]}" if parents[i] >= 0 else None)) for i in range(len(parents))]
    order = nodes[::-1] if reverse else nodes
    return nodes[0], order


def iso(p1: list[int], L1: list[Any], i: int, p2: list[int], L2: list[Any], j: int) -> Any:
    c1 = [k for k, p in enumerate(p1) if p == i]
    c2 = [k for k, p in enumerate(p2) if p == j]
    if len(c1) != len(c2):
        return z3.BoolVal(False)
    opts = [z3.And([iso(p1, L1, a, p2, L2, b) for a, b in zip(c1, perm)] + [z3.BoolVal(True)])
            for perm in itertools.permutations(c2)]
    return z3.And(L1[i] == L2[j], z3.Or(opts) if opts else z3.BoolVal(True))


def hash_paths(src: str, trees: list[tuple[list[int], list[Any], str, bool]]) -> list[tuple[list[Any], MP.World, list[Any]]]:
    """Interpret the real hash function on each tree; -> [(path condition, world, digests)] per feasible path."""
    from tel2puml.otel_to_pv.data_holders.sql_data_holder.sql_dataholder import create_event_id_to_child_nodes_map
    box: dict[str, Any] = {}

    def go() -> Any:
        w = MP.World()
        box["w"] = w

        class XX:
            xxh64_hexdigest = staticmethod(w.hash)
        it = MP.Interp(src, w, {"xxhash": XX, "sorted": w.sorted_})
        out = []
        for parents, labels, tag, rev in trees:
            root, nodes = build_nodes(parents, [MP.SymStr(l) for l in labels], tag, rev)
            cmap = create_event_id_to_child_nodes_map(nodes)  # real code; touches ids only
            out.append(it.call("compute_graph_hash_from_event_ids", [root, cmap]))
        return out
    res = []
    for pc, digests, exc in X.explore(go, []):
        if exc is not None:
            raise exc
        res.append((pc, box["w"], digests))
    return res


def real_hash(parents: list[int], labels: list[str]) -> str:
    from tel2puml.otel_to_pv.data_holders.sql_data_holder.sql_dataholder import (
        compute_graph_hash_from_event_ids, create_event_id_to_child_nodes_map)
    root, nodes = build_nodes(parents, labels, "r")
    return compute_graph_hash_from_event_ids(root, create_event_id_to_child_nodes_map(nodes))  # type: ignore[arg-type]


def concrete_canon(parents: list[int], labels: list[str], i: int = 0) -> str:
    return json.dumps([labels[i], sorted(concrete_canon(parents, labels, k) for k, p in enumerate(parents) if p == i)])


def realise(m: Any, w: MP.World, labels: list[Any], variant: int = 0) -> list[str]:
    """Turn a model over the uninterpreted hash into labels for the REAL xxh64.  Every model string is split into
    literal pieces and model digests; a digest is replaced by the real digest of the (recursively rewritten) hashed
    string, a literal piece by an injective variant of itself (variant > 0: the abstraction 'sorted = some permutation'
    may have used an order real digests do not have; other literals give other real orders)."""
    import xxhash
    ev = lambda t: m.eval(t, model_completion=True).as_string()
    apps = sorted({(ev(a), ev(MP.H(a))) for a in w.applied}, key=lambda p: len(p[0]))
    digests = {d for _, d in apps}
    real: dict[str, str] = {}

    def lit(piece: str) -> str:
        if not piece or variant == 0:
            return piece
        return piece + "~" + format(variant, "x") + "g"  # 'g' is not a hex digit: never completes a digest

    def rewrite(s: str) -> str:
        out, buf, i = "", "", 0
        while i < len(s):
            if s[i:i + 16] in digests and s[i:i + 16] in real:
                out += lit(buf) + real[s[i:i + 16]]
                buf = ""
                i += 16
            else:
                buf += s[i]
                i += 1
        return out + lit(buf)
    for sa, da in apps:
        real[da] = xxhash.xxh64_hexdigest(rewrite(sa))
    return [rewrite(ev(l)) for l in labels]


def q1(chk: core.Check, nmax: int) -> None:
    src = open(core.repo_file(SQLF)).read()
    sk = [p for n in range(1, nmax + 1) for p in skeletons(n)]
    t_tot = 0.0
    nq = 0
    known_seen = False
    for a, b in itertools.combinations_with_replacement(range(len(sk)), 2):
        p1, p2 = sk[a], sk[b]
        L1 = [z3.String(f"a{i}") for i in range(len(p1))]
        L2 = [z3.String(f"b{i}") for i in range(len(p2))]
        name = f"q1.injective {p1} vs {p2}"
        for bound in (None, 15):
            verdicts = []
            t0 = time.time()
            for pc, w, (d1, d2) in hash_paths(src, [(p1, L1, "x", False), (p2, L2, "y", False)]):
                s = z3.Solver()
                s.set("timeout", 120_000)
                s.add(pc + w.cons + w.injectivity())
                s.add(d1.term == d2.term, z3.Not(iso(p1, L1, 0, p2, L2, 0)))
                if bound:
                    s.add([z3.Length(x) <= bound for x in L1 + L2])
                r = str(s.check())
                verdicts.append((r, s.model() if r == "sat" else None, w))
                if r == "sat":
                    break
            dt = time.time() - t0
            t_tot += dt
            nq += 1
            nm = name + (f" labels<={bound}" if bound else " labels unbounded")
            if all(v[0] == "unsat" for v in verdicts):
                chk.held(nm, "z3-strings", dt, paths=len(verdicts))
                break
            if any(v[0] == "sat" for v in verdicts):
                _, m, w = next(v for v in verdicts if v[0] == "sat")
                repro = False
                for attempt in range(2):
                    for variant in range(0, 200):
                        l1, l2 = realise(m, w, L1, variant), realise(m, w, L2, variant)
                        h1, h2 = real_hash(p1, l1), real_hash(p2, l2)
                        repro = (h1 == h2) and concrete_canon(p1, l1) != concrete_canon(p2, l2)
                        if repro:
                            break
                    if repro or attempt == 1:
                        break
                    # the witness relied on a digest order that real xxh64 does not have and offers no literal to vary
                    # (e.g. all labels empty): ask for a model whose labels are all non-empty and try again
                    for pc2, w2, (e1, e2) in hash_paths(src, [(p1, L1, "x", False), (p2, L2, "y", False)]):
                        s2 = z3.Solver()
                        s2.set("timeout", 120_000)
                        s2.add(pc2 + w2.cons + w2.injectivity())
                        s2.add(e1.term == e2.term, z3.Not(iso(p1, L1, 0, p2, L2, 0)))
                        s2.add([z3.Length(x) >= 1 for x in L1 + L2])
                        if bound:
                            s2.add([z3.Length(x) <= bound for x in L1 + L2])
                        if str(s2.check()) == "sat":
                            m, w = s2.model(), w2
                            break
                    else:
                        break
                absorbed = any(len(x) >= 16 for x in l1 + l2)
                sig = "hash-label-absorbs-digest" if absorbed else "hash-collision-short-labels"
                chk.counterexample(nm, "z3-strings", dt, sig=sig,
                                   what=f"trees {p1} labels {l1} and {p2} labels {l2} have different shapes but the same hash {h1}",
                                   replay={"kind": "hash", "p1": p1, "l1": l1, "p2": p2, "l2": l2}, reproduced=repro)
                if sig == "hash-label-absorbs-digest" and repro and bound is None:
                    known_seen = True
                    continue  # re-ask with the known signature excluded (labels shorter than a digest)
                break
            chk.unknown(nm, "z3-strings", dt, f"solver answered {[v[0] for v in verdicts]}")
            break
    # child-order independence: same labelled tree, children presented in the opposite order
    for p in sk:
        if len(p) < 3:
            continue
        L = [z3.String(f"c{i}") for i in range(len(p))]
        t0 = time.time()
        ok = True
        try:
            paths = hash_paths_order(src, p, L)
        except MP.NotEncodable:
            raise
        for pc, w, (d1, d2) in paths:
            s = z3.Solver()
            s.set("timeout", 60_000)
            s.add(pc + w.cons + w.injectivity())
            s.add(d1.term != d2.term)
            r = str(s.check())
            if r != "unsat":
                ok = False
                if r == "sat":
                    m = s.model()
                    labels = [m.eval(x, model_completion=True).as_string() for x in L]
                    h1, h2 = real_hash_order(p, labels, False), real_hash_order(p, labels, True)
                    chk.counterexample(f"q1.child-order {p}", "z3-strings", time.time() - t0, sig="hash-depends-on-child-order",
                                       what=f"tree {p} labels {labels}: hash {h1} with children in stored order, {h2} reversed",
                                       replay={"kind": "order", "p": p, "l": labels}, reproduced=(h1 != h2))
                else:
                    chk.unknown(f"q1.child-order {p}", "z3-strings", time.time() - t0, f"solver answered {r}")
                break
        if ok:
            chk.held(f"q1.child-order {p}", "z3-strings", time.time() - t0)
    # twin: two isomorphic single-child trees do get equal digests (the encoding can reach equality)
    L1 = [z3.String("ta0"), z3.String("ta1")]
    L2 = [z3.String("tb0"), z3.String("tb1")]
    sat = False
    t0 = time.time()
    for pc, w, (d1, d2) in hash_paths(src, [([-1, 0], L1, "x", False), ([-1, 0], L2, "y", False)]):
        s = z3.Solver()
        s.add(pc + w.cons + w.injectivity())
        s.add(d1.term == d2.term)
        sat = sat or str(s.check()) == "sat"
    chk.twin("q1.twin", "z3-strings", sat, time.time() - t0)
    chk.samples.append({"q1": "exists labels: equal hash strings and non-isomorphic labelled trees (unsat expected once the known "
                              "label-absorbs-digest ambiguity is excluded)", "skeleton_pairs": nq, "known_finding_seen": known_seen})


def hash_paths_order(src: str, p: list[int], L: list[Any]) -> list[tuple[list[Any], MP.World, list[Any]]]:
    """same tree, children listed in opposite orders; sorted() is a function of the multiset of its arguments"""
    from tel2puml.otel_to_pv.data_holders.sql_data_holder.sql_dataholder import create_event_id_to_child_nodes_map
    box: dict[str, Any] = {}

    def go() -> Any:
        w = MP.World()
        box["w"] = w
        memo: list[tuple[list[Any], list[Any]]] = []

        def sorted_ms(xs: Any, key: Any = None, reverse: bool = False) -> list[Any]:
            xs = list(xs)
            ks = sorted(x.term.sexpr() if isinstance(x, MP.SymStr) else repr(x) for x in xs)
            for k0, out in memo:
                if k0 == ks:
                    return out
            out = w.sorted_(xs, key, reverse)
            memo.append((ks, out))
            return out

        class XX:
            xxh64_hexdigest = staticmethod(w.hash)
        it = MP.Interp(src, w, {"xxhash": XX, "sorted": sorted_ms})
        out = []
        for rev in (False, True):
            root, nodes = build_nodes(p, [MP.SymStr(l) for l in L], "x", rev)
            out.append(it.call("compute_graph_hash_from_event_ids", [root, create_event_id_to_child_nodes_map(nodes)]))
        return out
    res = []
    for pc, digests, exc in X.explore(go, []):
        if exc is not None:
            raise exc
        res.append((pc, box["w"], digests))
    return res


def real_hash_order(parents: list[int], labels: list[str], rev: bool) -> str:
    from tel2puml.otel_to_pv.data_holders.sql_data_holder.sql_dataholder import (
        compute_graph_hash_from_event_ids, create_event_id_to_child_nodes_map)
    root, nodes = build_nodes(parents, labels, "r", rev)
    return compute_graph_hash_from_event_ids(root, create_event_id_to_child_nodes_map(nodes))  # type: ignore[arg-type]


# --------------------------------------------------------------------------
# Q2
# --------------------------------------------------------------------------
def capture_unique_graph_statements(w0: Any, w1: Any) -> dict[str, Any]:
    """Run the real create_temp_table_of_root_nodes_in_time_window / get_unique_graph_job_ids_per_job_name on an empty
    model store and record the INSERT..SELECT and the GROUP BY statement."""
    from vlib import modelstore as M, sqlvalidate as V
    from tel2puml.otel_to_pv.data_holders.sql_data_holder import sql_dataholder as sdh
    from sqlalchemy.sql.dml import Insert
    from sqlalchemy.sql.selectable import Select
    V.forget_temp_table()
    store = M.Store()
    h = V.model_holder(store, 2, 0)
    rec: list[Any] = []
    orig = h.session.execute

    def execute(stmt: Any, *a: Any, **k: Any) -> Any:
        rec.append(stmt)
        if isinstance(stmt, Insert) and stmt.select is not None:
            return None  # the window bounds are symbolic: do not evaluate concretely
        return orig(stmt, *a, **k)
    h.session.execute = execute  # type: ignore[method-assign]
    tt = sdh.create_temp_table_of_root_nodes_in_time_window((w0, w1), h)
    sdh.get_unique_graph_job_ids_per_job_name(h)
    V.forget_temp_table()
    ins = [s for s in rec if isinstance(s, Insert) and s.select is not None]
    grp = [s for s in rec if isinstance(s, Select) and s._group_by_clauses]
    if len(ins) != 1 or len(grp) != 1:
        raise S.NotSupported("unexpected statements in unique-graph selection")
    return {"insert": ins[0], "group": grp[0], "temp": tt}


def window_paths() -> list[tuple[list[Any], Any, Any, Any]]:
    """The REAL get_time_window executed on symbolic tracked min/max/buffer: -> [(path condition, w0, w1, exception)]"""
    from tel2puml.otel_to_pv.data_holders.base import DataHolder, get_time_window
    minT, maxT, buf = z3.Ints("minT maxT buf")
    base = [minT >= 0, maxT >= 0, minT <= 2**62, maxT <= 2**63 - 1, buf >= 0, buf <= 10**6]
    H = type("H", (), {"min_timestamp": DataHolder.min_timestamp, "max_timestamp": DataHolder.max_timestamp})

    def go() -> Any:
        h = object.__new__(H)
        h._min_timestamp = X.SymInt(minT, 2**60, 2**61)   # intervals matter only if the code converts to float (see C11)
        h._max_timestamp = X.SymInt(maxT, 2**60, 2**61)
        return get_time_window(X.SymInt(buf, 0, 1000), h)
    X.FLOAT_EVENTS.clear()
    out = []
    for pc, res, exc in X.explore(go, base):
        out.append((pc, None if exc else res[0], None if exc else res[1], exc))
    return out


def q2(chk: core.Check, N: int) -> None:
    minT, maxT, buf = z3.Ints("minT maxT buf")
    dmin = z3.If(minT > maxT, z3.IntVal(0), minT)
    dmax = z3.If(maxT < minT, z3.IntVal(9223372036854775807), maxT)
    for pi, (pc, w0v, w1v, exc) in enumerate(window_paths()):
        if exc is not None:
            if isinstance(exc, ValueError) and "time buffer is too large" in str(exc):
                continue
            chk.unknown(f"q2.window path {pi}", "symexec", 0.0, f"get_time_window raised {type(exc).__name__}: {exc}")
            continue
        q2_path(chk, N, pi, pc, w0v, w1v, dmin + buf * 60 * 10**9, dmax - buf * 60 * 10**9)
    if X.FLOAT_EVENTS:
        chk.bounds["q2"] += "; the window computation used float arithmetic: tracked min/max in [2**60, 2**61], buffer <= 1000 min only"


def q2_path(chk: core.Check, N: int, pi: int, pc: list[Any], w0v: Any, w1v: Any, w0s: Any, w1s: Any) -> None:
    """w0v/w1v: what the real get_time_window returned on this path; w0s/w1s: the documented window"""
    st = capture_unique_graph_statements(w0v, w1v)
    nodes = S.SymTable("nodes", NCOLS, N, "s", nullable=("parent_event_id",))
    alg = S.Z3Alg()
    ev = S.Evaluator(S.z3_db([nodes], alg))
    sel = S._unwrap_select(st["insert"].select)
    rel = ev.select(sel, {})
    pre = [nodes.val[i]["event_id"] != nodes.val[j]["event_id"] for i in range(N) for j in range(i + 1, N)]
    for i in range(N):
        for c in ("start_timestamp", "end_timestamp"):
            pre += [nodes.val[i][c] >= 0, nodes.val[i][c] <= 2**62]
        for c in ("job_id", "event_id", "parent_event_id"):
            pre += [nodes.val[i][c] >= 0, nodes.val[i][c] <= 50]
    bad = []
    for i in range(N):
        inwin = z3.Or([z3.And(nodes.present[j], nodes.val[j]["job_id"] == nodes.val[i]["job_id"],
                              z3.Or(z3.And(w0s <= nodes.val[j]["start_timestamp"], nodes.val[j]["start_timestamp"] <= w1s),
                                    z3.And(w0s <= nodes.val[j]["end_timestamp"], nodes.val[j]["end_timestamp"] <= w1s)))
                       for j in range(N)])
        want = z3.And(nodes.present[i], nodes.null[i]["parent_event_id"], inwin)
        hits = [z3.And(g, list(row.values())[0][0] == nodes.val[i]["event_id"]) for g, row in rel]
        bad.append(z3.Or(hits) != want)
    s = z3.Solver()
    s.set("timeout", 120_000)
    s.add(pre + alg.side + list(pc))
    s.add(z3.Or(bad))
    t0 = time.time()
    r = str(s.check())
    dt = time.time() - t0
    nm = f"q2.candidate-roots N={N} window-path={pi}"
    if r == "unsat":
        chk.held(nm, "z3", dt)
    elif r == "sat":
        m = s.model()
        rows = []
        for i in range(N):
            if z3.is_true(m.eval(nodes.present[i], model_completion=True)):
                g = lambda c: m.eval(nodes.val[i][c], model_completion=True).as_long()
                rows.append({"job_id": f"j{g('job_id')}", "event_id": f"e{g('event_id')}", "start": g("start_timestamp"),
                             "end": g("end_timestamp"),
                             "parent": None if z3.is_true(m.eval(nodes.null[i]["parent_event_id"], model_completion=True)) else f"e{g('parent_event_id')}"})
        mv = {k: m.eval(z3.Int(k), model_completion=True).as_long() for k in ("minT", "maxT", "buf")}
        viol, what = replay_roots(rows, mv)
        chk.counterexample(nm, "z3", dt, sig="candidate-roots", what=what, replay={"kind": "roots", "rows": rows, "tracked": mv},
                           reproduced=viol)
    else:
        chk.unknown(nm, "z3", dt, f"solver answered {r}")
    if pi != 0:
        return
    # representative selection: one job id per (name, hash) group, belonging to the group
    from tel2puml.otel_to_pv.data_holders.sql_data_holder.data_model import JobHash
    jh = S.SymTable("job_hashes", ["job_id", "job_name", "job_hash"], N, "h")
    alg2 = S.Z3Alg()
    rel = S.Evaluator(S.z3_db([jh], alg2)).select(st["group"], {})
    pre2 = [z3.Implies(z3.And(jh.present[i], jh.present[j]), jh.val[i]["job_id"] != jh.val[j]["job_id"])
            for i in range(N) for j in range(i + 1, N)]
    bad2 = []
    for i in range(N):
        # for every present row: exactly one output row of its (name, hash) class, and that output's job_id is a member of the class
        cls = [z3.And(g, row["job_name"][0] == jh.val[i]["job_name"],
                      z3.Or([z3.And(jh.present[k], jh.val[k]["job_id"] == row["job_id"][0],
                                    jh.val[k]["job_name"] == jh.val[i]["job_name"], jh.val[k]["job_hash"] == jh.val[i]["job_hash"])
                             for k in range(N)])) for g, row in rel]
        bad2.append(z3.And(jh.present[i], z3.Not(z3.PbEq([(c, 1) for c in cls], 1))))
    # and no output row without a class
    for g, row in rel:
        bad2.append(z3.And(g, z3.Not(z3.Or([z3.And(jh.present[k], jh.val[k]["job_id"] == row["job_id"][0],
                                                   jh.val[k]["job_name"] == row["job_name"][0]) for k in range(N)]))))
    s = z3.Solver()
    s.set("timeout", 120_000)
    s.add(pre2 + alg2.side)
    s.add(z3.Or(bad2))
    t0 = time.time()
    r = str(s.check())
    dt = time.time() - t0
    if r == "unsat":
        chk.held(f"q2.one-representative-per-class N={N}", "z3", dt)
    elif r == "sat":
        m = s.model()
        rows = [{c: m.eval(jh.val[i][c], model_completion=True).as_long() for c in jh.cols}
                for i in range(N) if z3.is_true(m.eval(jh.present[i], model_completion=True))]
        viol, what = replay_groups(rows)
        chk.counterexample(f"q2.one-representative-per-class N={N}", "z3", dt, sig="representative-selection", what=what,
                           replay={"kind": "groups", "rows": rows}, reproduced=viol)
    else:
        chk.unknown(f"q2.one-representative-per-class N={N}", "z3", dt, f"solver answered {r}")
    # twins
    s = z3.Solver()
    s.add(pre + alg.side)
    rel_r = ev.select(sel, {})
    s.add(z3.Or([g for g, _ in rel_r]), z3.Or([z3.And(nodes.present[i], nodes.null[i]["parent_event_id"],
                                                      z3.Not(z3.Or([z3.And(g, list(row.values())[0][0] == nodes.val[i]["event_id"]) for g, row in rel_r])))
                                               for i in range(N)]))
    t0 = time.time()
    chk.twin("q2.twin", "z3", str(s.check()) == "sat", time.time() - t0)
    chk.samples.append({"q2": "candidate roots == root rows of traces with a span starting or ending in [w0,w1]; GROUP BY returns exactly one "
                              "member job id per existing (name, hash) class (bare column = arbitrary member)"})


def replay_roots(rows: list[dict[str, Any]], tracked: dict[str, int]) -> tuple[bool, str]:
    import sqlalchemy as sa
    from vlib import sqlvalidate as V
    from tel2puml.otel_to_pv.data_holders.base import get_time_window
    from tel2puml.otel_to_pv.data_holders.sql_data_holder import sql_dataholder as sdh
    from tel2puml.otel_to_pv.data_holders.sql_data_holder.data_model import NodeModel
    V.forget_temp_table()
    h = V.real_holder(2, tracked["buf"])
    with h.session as s:
        for r in rows:
            s.add(NodeModel(job_name="n", job_id=r["job_id"], event_type="T", event_id=r["event_id"], start_timestamp=r["start"],
                            end_timestamp=r["end"], application_name="a", parent_event_id=r["parent"]))
        s.commit()
    h._min_timestamp, h._max_timestamp = tracked["minT"], tracked["maxT"]
    try:
        tt = sdh.create_temp_table_of_root_nodes_in_time_window(get_time_window(tracked["buf"], h), h)
    except ValueError as e:
        V.forget_temp_table()
        h.engine.dispose()
        return False, f"real code: {e}"
    with h.session as s:
        got = sorted(x[0] for x in s.execute(sa.select(tt.c.event_id)).all())
    V.forget_temp_table()
    h.engine.dispose()
    lo = (0 if tracked["minT"] > tracked["maxT"] else tracked["minT"]) + tracked["buf"] * 60 * 10**9
    hi = (9223372036854775807 if tracked["maxT"] < tracked["minT"] else tracked["maxT"]) - tracked["buf"] * 60 * 10**9
    inwin = {r["job_id"] for r in rows if lo <= r["start"] <= hi or lo <= r["end"] <= hi}
    want = sorted(r["event_id"] for r in rows if r["parent"] is None and r["job_id"] in inwin)
    return got != want, f"candidate roots {got}, rule gives {want} (window [{lo},{hi}], tracked {tracked}, rows {rows})"


def replay_groups(rows: list[dict[str, Any]]) -> tuple[bool, str]:
    from vlib import sqlvalidate as V
    from tel2puml.otel_to_pv.data_holders.sql_data_holder import sql_dataholder as sdh
    from tel2puml.otel_to_pv.data_holders.sql_data_holder.data_model import JobHash
    h = V.real_holder(2, 0)
    with h.session as s:
        for r in rows:
            s.add(JobHash(job_id=f"j{r['job_id']}", job_name=f"n{r['job_name']}", job_hash=f"h{r['job_hash']}"))
        s.commit()
    got = sdh.get_unique_graph_job_ids_per_job_name(h)
    h.engine.dispose()
    classes: dict[tuple[str, str], set[str]] = {}
    for r in rows:
        classes.setdefault((f"n{r['job_name']}", f"h{r['job_hash']}"), set()).add(f"j{r['job_id']}")
    bad = False
    chosen = {(n, j) for n, js in got.items() for j in js}
    for (n, hh), members in classes.items():
        if len([1 for (n2, j) in chosen if n2 == n and j in members]) != 1:
            bad = True
    if len(chosen) != len(classes):
        bad = True
    return bad, f"selected {got} for classes {classes}"


# --------------------------------------------------------------------------
def conditions(tier: str) -> list[core.Cond]:
    tmo = 500 if tier == "quick" else 2400
    conds = []

    def add(n: int, T: int, bs: int, fix: dict[str, int]) -> None:
        conds.append(core.Cond(f"paging rows={n} traces<={T} batch={bs} shard={fix}", HARNESS, "check",
                               {"n": n, "T": T, "batch": bs, "fix": fix}, tmo))
    sh3 = [{"l1": a, "r1": b, "l2": c} for a in (0, 1) for b in (0, 1) for c in (0, 1)]
    if tier == "quick":
        for bs in (1, 2, 5):
            add(3, 2, bs, {})
        for fx in sh3:
            add(4, 2, 2, fx)
    else:
        for bs in (1, 2, 3, 7):
            for fx in sh3:
                add(4, 2, bs, fx)
        for bs in (2, 3):
            for fx in [{"l1": a, "r1": b, "l2": c, "r2": d} for a in (0, 1) for b in (0, 1) for c in (0, 1) for d in (0, 1, 2)
                       if d <= b + 1]:   # restricted-growth: the third row can open trace 2 only if the second opened trace 1
                add(5, 3, bs, fx)
    for bs in ((2,) if tier == "quick" else (1, 2, 5)):
        for k0 in (False, True):
            for k1 in (False, True):
                conds.append(core.Cond(f"q4.store changes between two unique-graph runs, batch={bs} shard={int(k0)}{int(k1)}", HARNESS, "history",
                                       {"kind": "history", "batch": bs, "k0": k0, "k1": k1}, tmo))
    conds.append(core.Cond("q4.one holder: save, clean, save later files, select (no buffer)", HARNESS, "history",
                           {"kind": "history", "batch": 2, "same_holder": 1}, tmo))
    h15 = os.path.join(core.VERIF, "harness", "c15.py")
    for late in ((0, 2) if tier == "quick" else range(5)):
        conds.append(core.Cond(f"q5.through otel_to_pv (per-span workflow names, cleaning, filtering, streaming), placement={late}", h15,
                               "unique_driver", {"kind": "unique-driver", "buf": 1, "batch": 2, "late": late, "history": []}, tmo))
    conds.append(core.Cond("twin", HARNESS, "twin", {"n": 3, "T": 2, "batch": 2, "fix": {}}, tmo, expect_violation=True))
    return conds


def _replay(res: core.CondResult) -> tuple[bool, str, str, dict[str, Any]]:
    out = core.replay_call(res.cond.module, "replay", res.args or [], res.cond.cfg)
    if "error" in out:
        return False, "replay-error", out["error"][-600:], {}
    return bool(out["violates"]), out["sig"], out["what"], {"replay_result": out}


def run(tier: str) -> int:
    chk = core.Check("C09", tier, "model_checking")
    chk.encode(SQLF, "compute_graph_hash_from_event_ids (AST -> z3 strings + uninterpreted hash); create_temp_table_of_root_nodes_in_time_window, "
                     "get_unique_graph_job_ids_per_job_name (statements -> z3); find_unique_graphs, get_root_nodes, get_sql_batch_nodes, "
                     "create_event_id_to_child_nodes_map, compute_graph_hashes_for_batch, insert_job_hashes (CrossHair on the model store)")
    nq1 = 3 if tier == "quick" else 4
    chk.bounds = {"q1": f"all pairs of tree skeletons with <= {nq1} nodes, labels arbitrary strings (unbounded, then < 16 chars)",
                  "q2": f"all stores of N = {4 if tier == 'quick' else 6} rows, any window",
                  "q5": "the real otel_to_pv driver with find_unique_graphs on a data set whose spans carry different workflow names inside "
                        "a trace: streamed jobs = one per distinct shape of the stored traces",
                  "q4": "two separate-process unique-graph runs on one store, the second ingesting other files with a 1-minute buffer; symbolic: "
                        "which traces of the first run survive the second run's cleaning",
                  "q3": "quick: 3 rows over <=2 traces x batch 1,2,5 and 4 rows over <=2 traces x batch 2; thorough: 4 rows x batch 1,2,3,7 and "
                        "5 rows over <=3 traces x batch 2,3: every assignment of rows to traces (every interleaving), span types from a "
                        "2-letter alphabet, chain/star placement of the third and later spans of a trace"}
    chk.outside = ["real xxh64 collisions (hash modelled as injective on the applied terms)",
                   "SQLite row order for un-ordered LIMIT/OFFSET assumed stable between consecutive queries",
                   "trees with more than 4 nodes in Q1"]
    chk.assumptions = ["z3 string theory; sorted() over digests abstracted as some permutation (injectivity) / a function of the multiset (order independence)",
                       "model store validated against SQLite each run", "CrossHair path exhaustion"]
    chk.explanation = "three obligations: canonical hashing (z3 strings), candidate/representative SQL (z3 relational), paging glue (CrossHair)"
    from vlib import sqlvalidate
    t0 = time.time()
    nval, bad = sqlvalidate.validate(seed=chk.seed, rounds=60)
    if bad:
        chk.unknown("model-store-validation", "sqlite-diff", time.time() - t0, f"model store disagrees with SQLite: {bad[0][:500]}")
        return chk.finish()
    chk.extra["validation_runs"] = nval
    try:
        q1(chk, nq1)
    except MP.NotEncodable as e:
        chk.unknown("q1", "minipy", 0.0, f"construct not encodable: {e}")
    try:
        q2(chk, 4 if tier == "quick" else 6)
    except S.NotSupported as e:
        chk.unknown("q2", "sa2smt", 0.0, f"SQL construct not supported: {e}")
    conds = conditions(tier)
    results = core.run_conds(conds)
    core.handle_crosshair_results(chk, results, _replay)
    chk.samples += [{"condition": r.cond.name, "paths": r.paths, "status": r.status} for r in results][:6]
    chk.extra["conditions"] = len(conds)
    chk.extra["paths_explored_total"] = sum(r.paths for r in results)
    return chk.finish()


def replay_file(path: str) -> int:
    rec = json.load(open(path))["replay"]
    k = rec.get("kind")
    if k == "hash":
        h1, h2 = real_hash(rec["p1"], rec["l1"]), real_hash(rec["p2"], rec["l2"])
        print(h1, h2)
        return 1 if h1 == h2 and concrete_canon(rec["p1"], rec["l1"]) != concrete_canon(rec["p2"], rec["l2"]) else 0
    if k == "order":
        h1, h2 = real_hash_order(rec["p"], rec["l"], False), real_hash_order(rec["p"], rec["l"], True)
        print(h1, h2)
        return 1 if h1 != h2 else 0
    if k == "roots":
        v, what = replay_roots(rec["rows"], rec["tracked"])
        print(what)
        return 1 if v else 0
    if k == "groups":
        v, what = replay_groups(rec["rows"])
        print(what)
        return 1 if v else 0
    out = core.replay_call(os.path.join(core.VERIF, rec.get("module", "harness/c09.py")), "replay", rec["args"], rec["cfg"])
    print(json.dumps(out, indent=1))
    return 1 if out.get("violates") else 0
