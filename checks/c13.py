"""C13 - field-mapping extraction follows the documented path semantics.

Part A (CrossHair): invalid records are skipped without affecting the others, whole-file and per-line modes.
Part B (z3, translation validation of the compiler's OUTPUT): for each mapping of a bounded family the REAL
field_mapping_to_jq_query generates a jq program; the program is evaluated under vlib/jqsym.py over document
skeletons whose string leaves are symbolic, next to the documented flattening semantics; z3 decides whether the
outputs can differ.  Counterexample documents are replayed through the real jq library.
"""
from __future__ import annotations

import copy
import json
import multiprocessing as mp
import os
import time
from typing import Any, Optional

import z3

from vlib import core
from checks import simple

HARNESS = os.path.join(core.VERIF, "harness", "c13.py")
CONV = "tel2puml/otel_to_pv/data_sources/json_data_source/json_jq_converter.py"
CONF = "tel2puml/otel_to_pv/data_sources/json_data_source/json_config.py"
SRC = "tel2puml/otel_to_pv/data_sources/json_data_source/json_datasource.py"

P = "rs.[].ss.[].spans.[]."
MAPPINGS: dict[str, dict[str, dict[str, Any]]] = {
    "plain paths": {
        "job_id": dict(key_paths=[P + "tid"], value_type="string"),
        "event_id": dict(key_paths=[P + "sid"], value_type="string"),
    },
    "header value from an enclosing object": {
        "job_name": dict(key_paths=["rs.[].ss.[].scope.name"], value_type="string"),
        "event_id": dict(key_paths=[P + "sid"], value_type="string"),
    },
    "key/value lookup in the span's attribute array": {
        "event_type": dict(key_paths=[P + "attrs.[].key"], key_value=["http.method"], value_paths=["value.v"], value_type="string"),
        "event_id": dict(key_paths=[P + "sid"], value_type="string"),
    },
    "header key/value lookup (resource attributes)": {
        "job_name": dict(key_paths=["rs.[].res.attrs.[].key"], key_value=["service.name"], value_paths=["value.v"], value_type="string"),
        "job_id": dict(key_paths=[P + "tid"], value_type="string"),
    },
    "concatenation of a plain value and a lookup": {
        "event_type": dict(key_paths=[P + "name", P + "attrs.[].key"], key_value=[None, "http.response"],
                           value_paths=[None, "value.v"], value_type="string"),
    },
    "priority fall-back": {
        "event_type": dict(key_paths=[P + "name", [P + "nothere", P + "attrs.[].key"]], key_value=[None, [None, "http.response"]],
                           value_paths=[None, [None, "value.v"]], value_type="string"),
        "application_name": dict(key_paths=[[P + "app", "rs.[].ss.[].scope.name"]], value_type="string"),
    },
    "documented example 2 (all forms together)": {
        "event_type": dict(key_paths=[P + "name", [P + "nothere", P + "attrs.[].key"]], key_value=[None, [None, "http.response"]],
                           value_paths=[None, [None, "value.v"]], value_type="string"),
        "job_name": dict(key_paths=["rs.[].res.attrs.[].key"], key_value=["service.name"], value_paths=["value.v"], value_type="string"),
        "event_id": dict(key_paths=[P + "sid"], value_type="string"),
        "start_timestamp": dict(key_paths=[P + "start"], value_type="string"),
    },
    "two lookups with different keys in one attribute array": {
        "event_type": dict(key_paths=[P + "attrs.[].key"], key_value=["http.method"], value_paths=["value.v"], value_type="string"),
        "job_id": dict(key_paths=[P + "attrs.[].key"], key_value=["http.url"], value_paths=["value.v"], value_type="string"),
    },
    "priority between two lookups, then a plain path": {
        "event_type": dict(key_paths=[[P + "attrs.[].key", P + "attrs.[].key", P + "name"]], key_value=[["first", "second", None]],
                           value_paths=[["value.v", "value.v", None]], value_type="string"),
    },
    "three-way concatenation (header, span, lookup)": {
        "event_type": dict(key_paths=["rs.[].ss.[].scope.name", P + "name", P + "attrs.[].key"], key_value=[None, None, "http.method"],
                           value_paths=[None, None, "value.v"], value_type="string"),
        "event_id": dict(key_paths=[P + "sid"], value_type="string"),
    },
    "header lookup concatenated with span lookup": {
        "job_name": dict(key_paths=["rs.[].res.attrs.[].key", P + "attrs.[].key"], key_value=["service.name", "http.method"],
                         value_paths=["value.v", "value.v"], value_type="string"),
    },
    "lookup whose value sits directly in the attribute": {
        "event_type": dict(key_paths=[P + "attrs.[].key"], key_value=["http.method"], value_paths=["vtop"], value_type="string"),
        "application_name": dict(key_paths=[[P + "attrs.[].key", P + "app"]], key_value=[["svc", None]], value_paths=[["vtop", None]], value_type="string"),
    },
    "attribute key that begins with a dot": {
        "event_type": dict(key_paths=[P + "attrs.[].key"], key_value=[".stage"], value_paths=["value.v"], value_type="string"),
        "job_name": dict(key_paths=[[P + "attrs.[].key", P + "name"]], key_value=[[".stage.owner", None]], value_paths=[["vtop", None]], value_type="string"),
    },
    "array level sharing its name with the final key": {
        "job_name": dict(key_paths=["items.[].id"], value_type="string"),
        "job_id": dict(key_paths=["items.[].sub.[].items"], value_type="string"),
        "event_type": dict(key_paths=["items.[].sub.[].sub"], value_type="string"),
    },
}


# --------------------------------------------------------------------------
# document skeletons: templates with token leaves ("§...") that become symbolic strings
# --------------------------------------------------------------------------
def attr(tag: str) -> dict[str, Any]:
    return {"key": f"§k{tag}", "value": {"v": f"§v{tag}"}, "vtop": f"§t{tag}"}


def span(tag: str, n_attrs: int) -> dict[str, Any]:
    return {"tid": f"§tid{tag}", "sid": f"§sid{tag}", "name": f"§name{tag}", "start": f"§st{tag}", "app": f"§app{tag}",
            "attrs": [attr(f"{tag}a{i}") for i in range(n_attrs)]}


def otel(n_rs: int = 1, n_ss: int = 1, n_sp: int = 2, n_at: int = 2, n_rat: int = 2) -> dict[str, Any]:
    return {"rs": [{"res": {"attrs": [attr(f"r{r}a{i}") for i in range(n_rat)]},
                    "ss": [{"scope": {"name": f"§scope{r}{s}"},
                            "spans": [span(f"{r}{s}{p}", n_at) for p in range(n_sp)]} for s in range(n_ss)]} for r in range(n_rs)]}


def edit(doc: Any, path: list[Any], value: Any = "DELETE") -> Any:
    d = copy.deepcopy(doc)
    cur = d
    for p in path[:-1]:
        cur = cur[p]
    if value == "DELETE":
        del cur[path[-1]]
    else:
        cur[path[-1]] = value
    return d


_SP0 = ["rs", 0, "ss", 0, "spans", 0]
SINGLE_EDITS: dict[str, tuple] = {
    "empty scope list": (["rs", 0, "ss"], []),
    "empty span list": (["rs", 0, "ss", 0, "spans"], []),
    "span without attribute array": (_SP0 + ["attrs"],),
    "resource without attribute array": (["rs", 0, "res", "attrs"],),
    "missing resource object": (["rs", 0, "res"],),
    "missing scope object": (["rs", 0, "ss", 0, "scope"],),
    "span name null": (_SP0 + ["name"], None),
    "span name absent": (_SP0 + ["name"],),
    "trace id absent": (_SP0 + ["tid"],),
    "scope name null": (["rs", 0, "ss", 0, "scope", "name"], None),
    "attribute key null": (_SP0 + ["attrs", 0, "key"], None),
    "attribute without value": (_SP0 + ["attrs", 1, "value"],),
    "attribute value is a number": (_SP0 + ["attrs", 1, "value", "v"], 200),
    "span name is a number": (_SP0 + ["name"], 7),
    "attribute value null": (_SP0 + ["attrs", 0, "value", "v"], None),
    "second span without attributes": (["rs", 0, "ss", 0, "spans", 1, "attrs"],),
    "resource attribute key null": (["rs", 0, "res", "attrs", 0, "key"], None),
}


def skeletons(tier: str) -> dict[str, Any]:
    base = otel()
    sp0 = ["rs", 0, "ss", 0, "spans", 0]
    sk: dict[str, Any] = {
        "base (1 resource, 1 scope, 2 spans, 2+2 attributes)": base,
        "2 resources": otel(2, 1, 1, 1, 1),
        "2 scopes": otel(1, 2, 1, 1, 1),
        "no attributes anywhere": otel(1, 1, 2, 0, 0),
        "empty resource list": edit(base, ["rs"], []),
        "empty scope list": edit(base, ["rs", 0, "ss"], []),
        "empty span list": edit(base, ["rs", 0, "ss", 0, "spans"], []),
        "span without attribute array": edit(base, sp0 + ["attrs"]),
        "resource without attribute array": edit(base, ["rs", 0, "res", "attrs"]),
        "missing resource object": edit(base, ["rs", 0, "res"]),
        "missing scope object": edit(base, ["rs", 0, "ss", 0, "scope"]),
        "missing scope list": edit(base, ["rs", 0, "ss"]),
        "missing span list": edit(base, ["rs", 0, "ss", 0, "spans"]),
        "span name null": edit(base, sp0 + ["name"], None),
        "span name absent": edit(base, sp0 + ["name"]),
        "trace id absent": edit(base, sp0 + ["tid"]),
        "scope name null": edit(base, ["rs", 0, "ss", 0, "scope", "name"], None),
        "attribute key null": edit(base, sp0 + ["attrs", 0, "key"], None),
        "attribute without value": edit(base, sp0 + ["attrs", 1, "value"]),
        "attribute value is a number": edit(base, sp0 + ["attrs", 1, "value", "v"], 200),
        "span name is a number": edit(base, sp0 + ["name"], 7),
        "attribute value null": edit(base, sp0 + ["attrs", 0, "value", "v"], None),
    }
    if tier == "thorough":
        import itertools
        import random
        singles = {k: v for k, v in SINGLE_EDITS.items()}
        pairs = list(itertools.combinations(sorted(singles), 2))
        random.Random(int(os.environ.get("VERIF_SEED", "0") or 0)).shuffle(pairs)
        for a, b in pairs[:40]:
            try:
                d = edit(edit(base, *singles[a]), *singles[b])
            except (KeyError, IndexError, TypeError):
                continue   # the second edit addresses something the first removed
            sk[f"{a} + {b}"] = d
        sk.update({
            "3 spans, 1 attribute each": otel(1, 1, 3, 1, 1),
            "2 resources x 2 scopes": otel(2, 2, 1, 1, 1),
            "3 attributes on one span": otel(1, 1, 1, 3, 1),
            "null span list": edit(base, ["rs", 0, "ss", 0, "spans"], None),
            "attribute array is null": edit(base, sp0 + ["attrs"], None),
            "second span without name and without attributes": edit(edit(base, ["rs", 0, "ss", 0, "spans", 1, "name"]), ["rs", 0, "ss", 0, "spans", 1, "attrs"]),
        })
    return sk


def collide_skeletons() -> dict[str, Any]:
    def item(t: str, n: int) -> dict[str, Any]:
        return {"id": f"§id{t}", "sub": [{"items": f"§in{t}{j}", "sub": f"§ss{t}{j}"} for j in range(n)]}
    return {"nested items, 2x2": {"items": [item("a", 2), item("b", 2)]},
            "nested items, inner empty": {"items": [item("a", 0), item("b", 1)]},
            "nested items, inner missing": {"items": [{"id": "§ida"}, item("b", 1)]}}


def tokens(doc: Any) -> list[str]:
    out: list[str] = []

    def walk(v: Any) -> None:
        if isinstance(v, str) and v.startswith("§"):
            out.append(v)
        elif isinstance(v, dict):
            for x in v.values():
                walk(x)
        elif isinstance(v, list):
            for x in v:
                walk(x)
    walk(doc)
    return out


def substitute(doc: Any, f: Any) -> Any:
    if isinstance(doc, str) and doc.startswith("§"):
        return f(doc)
    if isinstance(doc, dict):
        return {k: substitute(v, f) for k, v in doc.items()}
    if isinstance(doc, list):
        return [substitute(v, f) for v in doc]
    return doc


# --------------------------------------------------------------------------
OTEL_FIELDS = ["job_name", "job_id", "event_type", "event_id", "start_timestamp", "end_timestamp", "application_name", "parent_event_id"]


def full(mapping: dict[str, dict[str, Any]]) -> dict[str, dict[str, Any]]:
    """The mapping as a complete OTel field mapping: fields the case does not exercise get a plain path to a key that no
    skeleton contains (they extract null in the program and in the reference alike)."""
    first = next(iter(mapping.values()))["key_paths"][0]
    first = first[0] if isinstance(first, list) else first
    root = "items.[]." if first.startswith("items") else P
    out = {f: (copy.deepcopy(mapping[f]) if f in mapping else dict(key_paths=[root + "zz_" + f], value_type="string")) for f in OTEL_FIELDS}
    return out


def config_for(mapping: dict[str, dict[str, Any]]) -> Any:
    """through the REAL configuration path (what a yaml file goes through): pydantic models, then the converter"""
    from tel2puml.otel_to_pv.data_sources.json_data_source.json_config import JSONDataSourceConfig
    return JSONDataSourceConfig(filepath="/nonexistent.json", field_mapping=full(mapping))  # type: ignore[arg-type]


def program_for(mapping: dict[str, dict[str, Any]]) -> str:
    from tel2puml.otel_to_pv.data_sources.json_data_source.json_jq_converter import get_jq_query_from_config
    return get_jq_query_from_config(config_for(mapping))


def real_jq(mapping: dict[str, dict[str, Any]], doc: Any) -> Any:
    from tel2puml.otel_to_pv.data_sources.json_data_source.json_jq_converter import (compile_jq_query, get_jq_query_from_config,
                                                                                    generate_records_from_compiled_jq)
    try:
        cj = compile_jq_query(get_jq_query_from_config(config_for(mapping)))
        return list(generate_records_from_compiled_jq(doc, cj))
    except Exception as e:  # noqa
        return f"raised {type(e).__name__}: {str(e)[:200]}"


def compare(a: list[Any], b: list[Any]) -> list[tuple[str, Any]]:
    """-> list of (description, z3 condition under which the outputs differ); condition True = differs outright"""
    from vlib.minipy import SymStr, _s
    if len(a) != len(b):
        return [(f"{len(a)} records extracted, {len(b)} expected", True)]
    out: list[tuple[str, Any]] = []
    for i, (ra, rb) in enumerate(zip(a, b)):
        if not isinstance(ra, dict) or set(ra) != set(rb):
            return [(f"record {i} has fields {sorted(ra) if isinstance(ra, dict) else ra!r}, expected {sorted(rb)}", True)]
        for f in rb:
            va, vb = ra[f], rb[f]
            sa, sb = isinstance(va, (str, SymStr)), isinstance(vb, (str, SymStr))
            if sa and sb:
                if isinstance(va, str) and isinstance(vb, str):
                    if va != vb:
                        out.append((f"record {i} field {f}: {va!r} != {vb!r}", True))
                else:
                    out.append((f"record {i} field {f}", _s(va) != _s(vb)))
            elif sa != sb or (not sa and va != vb):
                out.append((f"record {i} field {f}: extracted {va!r}, documented semantics give {vb!r}", True))
    return out


def one_job(job: tuple[str, str, Any, dict[str, dict[str, Any]]]) -> dict[str, Any]:
    """(mapping name, skeleton name, template doc, mapping) -> result of the symbolic comparison"""
    from vlib import jqsym as J, symexec as X
    from vlib.minipy import SymStr
    mname, sname, template, mapping = job
    t0 = time.time()
    res: dict[str, Any] = {"mapping": mname, "skeleton": sname, "paths": 0, "verdict": "unsat", "leaves": len(tokens(template))}
    try:
        prog = program_for(mapping)
        ast_ = J.parse(prog)
    except J.JQError as e:
        res.update(verdict="unknown", why=f"generated program is outside the modelled jq subset: {e}")
        return res
    except SyntaxError as e:
        res.update(verdict="unknown", why=f"generated program not parsed by the jq-subset parser: {e}")
        return res
    except Exception as e:  # noqa
        # the real configuration path / converter refuses a mapping written in a documented form
        res.update(verdict="sat", model={}, generation_failed=f"{type(e).__name__}: {str(e)[:300]}",
                   what=[f"no extraction program for a documented-form mapping: {type(e).__name__}"])
        return res
    # validation of the jq-subset semantics on this very case: concrete strings through jqsym and through real jq
    cdoc = substitute(template, lambda tk: tk[1:])
    try:
        mine = J.run_program(ast_, cdoc)
    except J.JQError as e:
        mine = f"raised JQError: {e}"
    theirs = real_jq(mapping, cdoc)
    if mine != theirs:
        res.update(verdict="unknown", why=f"jq-subset semantics disagrees with real jq on the concrete skeleton: {mine} vs {theirs}")
        return res
    box: dict[str, Any] = {}

    def go() -> Any:
        doc = substitute(template, lambda tk: SymStr(z3.String(tk)))
        try:
            got = J.run_program(ast_, doc)
        except J.JQError as e:
            got = [f"program error: {e}"]
        want = J.reference(full(mapping), doc)
        return compare(got, want)
    for pc, diffs, exc in X.explore(go, [], max_paths=4000):
        res["paths"] += 1
        if exc is not None:
            res.update(verdict="unknown", why=f"evaluation raised {type(exc).__name__}: {exc}")
            break
        conds = [c for _, c in diffs]
        if not conds:
            continue
        s = z3.Solver()
        s.set("timeout", 30_000)
        s.add(pc)
        if not any(c is True for c in conds):
            s.add(z3.Or(conds))
        r = str(s.check())
        if r == "sat":
            m = s.model()
            vals = {tk: m.eval(z3.String(tk), model_completion=True).as_string() for tk in tokens(template)}
            res.update(verdict="sat", model=vals, what=[d for d, _ in diffs][:3])
            break
        if r != "unsat":
            res.update(verdict="unknown", why=f"solver answered {r}")
            break
    res["seconds"] = round(time.time() - t0, 2)
    return res


def replay_b(mname: str, template: Any, vals: dict[str, str]) -> tuple[bool, str]:
    from vlib import jqsym as J
    mapping = MAPPINGS[mname]
    doc = substitute(template, lambda tk: vals.get(tk, tk[1:]))
    try:
        program_for(mapping)
    except Exception as e:  # noqa
        return True, f"mapping '{mname}' (a documented form) is rejected by the real configuration path / converter: {type(e).__name__}: {str(e)[:200]}"
    got = real_jq(mapping, doc)
    want = J.reference(full(mapping), doc)
    return got != want, f"mapping '{mname}' on {json.dumps(doc)}: real jq extracts {got}, documented flattening gives {want}"


def part_b(chk: core.Check, tier: str) -> None:
    jobs = []
    sk = skeletons(tier)
    for mname, mapping in MAPPINGS.items():
        pool = collide_skeletons() if mname.startswith("array level") else sk
        for sname, template in pool.items():
            jobs.append((mname, sname, template, mapping))
    with mp.Pool(min(core.NCPU, 16)) as pool_:
        results = pool_.map(one_job, jobs, chunksize=1)
    templates = {(j[0], j[1]): j[2] for j in jobs}
    for r in results:
        nm = f"b.{r['mapping']} / {r['skeleton']}"
        chk.states += r["paths"]
        chk.transitions += r["paths"]
        if r["verdict"] == "unsat":
            chk.held(nm, "z3-strings", r.get("seconds", 0.0), paths=r["paths"], symbolic_leaves=r["leaves"])
        elif r["verdict"] == "sat":
            viol, what = replay_b(r["mapping"], templates[(r["mapping"], r["skeleton"])], r["model"])
            chk.counterexample(nm, "z3-strings", r.get("seconds", 0.0), sig="extraction-differs", what=what,
                               replay={"kind": "b", "mapping": r["mapping"], "skeleton": r["skeleton"], "tier": tier, "model": r["model"]},
                               reproduced=viol)
        else:
            chk.unknown(nm, "z3-strings", r.get("seconds", 0.0), r.get("why", "unknown"))
    chk.extra["validation_runs"] = len(results)
    # vacuity twin: a key leaf CAN equal the looked-up constant and then changes the output (the symbolic leaves matter)
    from vlib import jqsym as J, symexec as X
    from vlib.minipy import SymStr, _s
    mapping = MAPPINGS["key/value lookup in the span's attribute array"]
    ast_ = J.parse(program_for(mapping))
    template = otel(1, 1, 1, 1, 0)
    sat = False
    t0 = time.time()

    def go() -> Any:
        doc = substitute(template, lambda tk: SymStr(z3.String(tk)))
        return J.run_program(ast_, doc)
    for pc, out, exc in X.explore(go, []):
        if exc is None and out and out[0].get("event_type") is not None:
            s = z3.Solver()
            s.add(pc)
            sat = sat or str(s.check()) == "sat"
    chk.twin("b.twin (a lookup can succeed)", "z3-strings", sat, time.time() - t0)
    chk.samples.append({"part_b": "exists leaf strings: program output != documented flattening (unsat expected)",
                        "example_mapping": mapping, "example_skeleton": template})


def run(tier: str) -> int:
    chk = core.Check("C13", tier, "translation_validation")
    chk.encode(CONV, "field_mapping_to_jq_query and everything it calls (its OUTPUT program is validated); generate_records_from_compiled_jq (replay)")
    chk.encode(CONF, "FieldSpec / JQFieldSpec normalisation (runs concretely inside the real converter)")
    chk.encode(SRC, "JSONDataSource.__next__, parse_json_stream, get_jsons_from_file (CrossHair, part A)")
    chk.bounds = {"part_a": "3 records (thorough 4), each valid / missing field / wrong type (thorough: / null name), split over two files or two lines at every position",
                  "part_b": f"{len(MAPPINGS)} mappings built from the documented forms x {len(skeletons(tier))} OTel-shaped document skeletons "
                            "(array lengths 0..2(3), missing / null objects, arrays and leaves, numeric leaves) + 3 skeletons for a path whose "
                            "array level shares its name with the final key; EVERY string leaf (keys, values, names, ids) is a symbolic string"}
    chk.outside = ["document structures outside the enumerated skeletons", "leaves of kind false / object / array where a scalar is expected",
                   "value_type 'array'", "the user-supplied jq_query option", "jq features outside the emitted subset"]
    chk.assumptions = ["jq-subset semantics of vlib/jqsym.py: compared with the real jq library on every (mapping, skeleton) of the run before "
                       "it is used, and every counterexample is replayed through real jq", "z3 string theory",
                       "reference = flattening semantics written from docs/user/json_data_converter_HOWTO.md (vlib/jqsym.py: reference)"]
    chk.explanation = "translation validation of the generated jq program against the documented semantics over symbolic string leaves"
    t0 = time.time()
    try:
        part_b(chk, tier)
    except Exception as e:  # noqa
        import traceback
        traceback.print_exc()
        chk.unknown("part_b", "jqsym", time.time() - t0, f"machinery failed: {type(e).__name__}: {e}")
    chk.extra["programs"] = len(MAPPINGS)
    chk.extra["disagreements_checked"] = chk.replayed
    tmo = 400 if tier == "quick" else 1200
    n, kinds = (3, 3) if tier == "quick" else (4, 4)
    conds = [core.Cond(f"a.record skipping, {n} records, first record kind {k}, per_line={pl}", HARNESS, "check",
                       {"k0": k, "n": n, "kinds": kinds, "per_line": pl}, tmo) for k in range(kinds) for pl in (False, True)]
    conds.append(core.Cond("a.per-line file with one document and trailing blank lines", HARNESS, "blank_tail", {"kind": "blank"}, tmo))
    conds.append(core.Cond("a.unusual characters inside string leaves (per-line and whole-file)", HARNESS, "separators", {"kind": "separators"}, tmo))
    conds.append(core.Cond("a.twin", HARNESS, "twin", {"k0": 0, "n": 3, "kinds": 3, "per_line": True}, tmo, expect_violation=True))
    return simple.run_conditions(chk, HARNESS, conds)


def replay_file(path: str) -> int:
    rec = json.load(open(path))["replay"]
    if rec.get("kind") == "b":
        pool = collide_skeletons() if rec["mapping"].startswith("array level") else skeletons(rec.get("tier", "thorough"))
        viol, what = replay_b(rec["mapping"], pool[rec["skeleton"]], rec["model"])
        print(what)
        return 1 if viol else 0
    return simple.replay_file(HARNESS, path)
