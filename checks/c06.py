"""C06 (in part) - AND-under-OR recovery kernel of the gate inference (CrossHair)."""
from __future__ import annotations

import itertools
import os

from vlib import core
from checks import simple

HARNESS = os.path.join(core.VERIF, "harness", "c06.py")


def run(tier: str) -> int:
    chk = core.Check("C06", tier, "other")
    chk.encode("tel2puml/utils.py", "get_weighted_cover")
    chk.encode("tel2puml/logic_detection.py", "process_missing_and_gates (on hand-built OR trees)")
    chk.encode("tel2puml/events.py", "EventSet, get_reduced_event_set")
    chk.bounds = {"cover": "every non-empty family of non-empty subsets of a universe of 3 events (127 families; thorough: 4 events, the 4943 "
                           "families with at most 5 observed sets): soundness (partition of the universe, members observed, every observed set a union of members); "
                           "completeness where exactness is demanded: families that are exactly the outcomes of an OR over AND-groups",
                  "gates": "OR over 2 or 3 plain events (optionally with an extra XOR child): process_missing_and_gates keeps every leaf "
                           "and the resulting tree admits every observed set"}
    chk.outside = ["calculate_process_tree_from_event_sets (pm4py inductive miner) and hence calculate_logic_gates as a whole",
                   "OR inference from tau children (get_extended_or_gates_from_process_tree), repeats (calculate_repeats_in_tree)"]
    chk.assumptions = ["pm4py ProcessTree / Operator classes are plain Python containers", "CrossHair path exhaustion (bounded exhaustion: every path has concrete sets)"]
    chk.explanation = "PARTIAL: decides the post-processing kernel only; soundness/exactness of the whole gate inference is not claimed"
    tmo = 400 if tier == "quick" else 2400
    conds = [core.Cond("cover |U|=3 (universe = all 3 events)", HARNESS, "check", {"k": 3}, tmo),
             core.Cond("cover |U|=3 (universe = union of the family)", HARNESS, "check", {"k": 3, "sub": 1}, tmo),
             core.Cond("gates OR(A,B,C)", HARNESS, "check", {"k": 3, "kind": "gates"}, tmo),
             core.Cond("gates OR(A,B,XOR(X1,X2))", HARNESS, "check", {"k": 2, "kind": "gates", "extra": 1}, tmo),
             core.Cond("gates OR(A,B,C,XOR(X1,X2))", HARNESS, "check", {"k": 3, "kind": "gates", "extra": 1}, tmo),
             core.Cond("twin", HARNESS, "twin", {"k": 2}, tmo, expect_violation=True)]
    if tier == "thorough":
        # |U| = 4: families of 1..5 observed sets, given as increasing index tuples; sharded by size and first index
        for kind in ("cover", "gates"):
            for count in range(1, 6):
                firsts = [None] if count <= 2 else list(range(0, 15 - count + 1))
                for first in firsts:
                    cfg = {"k": 4, "idx": 1, "count": count, "max_sets": 5}
                    if kind == "gates":
                        cfg["kind"] = "gates"
                    if first is not None:
                        cfg["first"] = first
                    conds.append(core.Cond(f"{kind} |U|=4, {count} observed sets, first index {first}", HARNESS, "check_idx", cfg, tmo))
    return simple.run_conditions(chk, HARNESS, conds)


def replay_file(path: str) -> int:
    return simple.replay_file(HARNESS, path)
