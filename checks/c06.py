"""C06 (in part) - AND-under-OR recovery kernel of the gate inference (CrossHair)."""
from __future__ import annotations

import itertools
import os

from vlib import core
from checks import simple

HARNESS = os.path.join(core.VERIF, "harness", "c06.py")


def run(tier: str) -> int:
    chk = core.Check("C06", tier, "other")
    chk.encode("tel2puml/utils.py", "get_weighted_cover")
    chk.encode("tel2puml/logic_detection.py", "process_missing_and_gates (on hand-built OR trees)")
    chk.encode("tel2puml/events.py", "EventSet, get_reduced_event_set")
    chk.bounds = {"cover": "every non-empty family of non-empty subsets of a universe of 3 events (127 families; thorough: 4 events, the 4943 "
                           "families with at most 5 observed sets): soundness (partition of the universe, members observed, every observed set a union of members); "
                           "completeness where exactness is demanded: families that are exactly the outcomes of an OR over AND-groups",
                  "gates": "OR over 2 or 3 plain events (optionally with an extra XOR child): process_missing_and_gates keeps every leaf "
                           "and the resulting tree admits every observed set"}
    chk.outside = ["calculate_process_tree_from_event_sets (pm4py inductive miner) and hence calculate_logic_gates as a whole",
                   "OR inference from tau children (get_extended_or_gates_from_process_tree), repeats (calculate_repeats_in_tree)"]
    chk.assumptions = ["pm4py ProcessTree / Operator classes are plain Python containers", "CrossHair path exhaustion (bounded exhaustion: every path has concrete sets)"]
    chk.explanation = "PARTIAL: decides the post-processing kernel only; soundness/exactness of the whole gate inference is not claimed"
    tmo = 400 if tier == "quick" else 2400
    conds = [core.Cond("cover |U|=3 (universe = all 3 events)", HARNESS, "check", {"k": 3}, tmo),
             core.Cond("cover |U|=3 (universe = union of the family)", HARNESS, "check", {"k": 3, "sub": 1}, tmo),
             core.Cond("gates OR(A,B,C)", HARNESS, "check", {"k": 3, "kind": "gates"}, tmo),
             core.Cond("gates OR(A,B,XOR(X1,X2))", HARNESS, "check", {"k": 2, "kind": "gates", "extra": 1}, tmo),
             core.Cond("gates OR(A,B,C,XOR(X1,X2))", HARNESS, "check", {"k": 3, "kind": "gates", "extra": 1}, tmo),
             core.Cond("twin", HARNESS, "twin", {"k": 2}, tmo, expect_violation=True)]
    if tier == "thorough":
        for fx in itertools.product((0, 1), repeat=7):
            if sum(fx) <= 5:
                conds.append(core.Cond(f"cover |U|=4 shard={fx}", HARNESS, "check", {"k": 4, "fix": list(fx), "max_sets": 5}, tmo))
        for fx in itertools.product((0, 1), repeat=6):
            if sum(fx) <= 5:
                conds.append(core.Cond(f"gates OR(A,B,C,D) shard={fx}", HARNESS, "check", {"k": 4, "kind": "gates", "fix": list(fx), "max_sets": 5}, tmo))
    return simple.run_conditions(chk, HARNESS, conds)


def replay_file(path: str) -> int:
    return simple.replay_file(HARNESS, path)
