"""Shared driver for checks that consist of CrossHair conditions only."""
from __future__ import annotations

import json
from typing import Any, Callable

from vlib import core


def make_replay(harness: str) -> Callable[[core.CondResult], tuple[bool, str, str, dict[str, Any]]]:
    def _replay(res: core.CondResult) -> tuple[bool, str, str, dict[str, Any]]:
        out = core.replay_call(harness, "replay", res.args or [], res.cond.cfg)
        if "error" in out:
            return False, "replay-error", out["error"][-600:], {}
        return bool(out["violates"]), out["sig"], out["what"], {"replay_result": out}
    return _replay


def run_conditions(chk: core.Check, harness: str, conds: list[core.Cond]) -> int:
    results = core.run_conds(conds)
    core.handle_crosshair_results(chk, results, make_replay(harness))
    chk.samples += [{"condition": r.cond.name, "cfg": r.cond.cfg, "paths": r.paths, "status": r.status}
                    for r in results[:: max(1, len(results) // 8)]][:10]
    chk.extra["conditions"] = len(conds)
    chk.extra["paths_explored_total"] = sum(r.paths for r in results)
    return chk.finish()


def replay_file(harness: str, path: str) -> int:
    rec = json.load(open(path))["replay"]
    out = core.replay_call(harness, "replay", rec["args"], rec["cfg"])
    print(json.dumps(out, indent=1))
    return 1 if out.get("violates") else 0
