"""C14 (in part) - saved PV files equal the in-memory stream, also under a custom mapping (CrossHair)."""
from __future__ import annotations

import ast
import os

from vlib import core
from checks import simple

HARNESS = os.path.join(core.VERIF, "harness", "c14.py")


def structural(chk: core.Check) -> None:
    """Both routes end in the same learner call: in otel_to_puml every `case` arm only prepares `pv_streams`."""
    src = open(core.repo_file("tel2puml/otel_to_puml.py")).read()
    fn = next(n for n in ast.walk(ast.parse(src)) if isinstance(n, ast.FunctionDef) and n.name == "otel_to_puml")
    calls = [n for n in ast.walk(fn) if isinstance(n, ast.Call) and isinstance(n.func, ast.Name) and n.func.id == "pv_streams_to_puml_files"]
    in_match = [c for m in ast.walk(fn) if isinstance(m, ast.Match) for c in ast.walk(m) if c in calls]
    chk.extra["single_learner_call_after_dispatch"] = (len(calls) == 1 and not in_match)
    if not (len(calls) == 1 and not in_match):
        chk.unknown("structure", "ast", 0.0, "otel_to_puml no longer funnels both routes into one pv_streams_to_puml_files call; "
                    "the reduction of diagram equivalence to stream equality does not apply")


def run(tier: str) -> int:
    chk = core.Check("C14", tier, "other")
    chk.encode("tel2puml/otel_to_pv/otel_to_pv.py", "handle_save_events, save_pv_event_stream_to_file")
    chk.encode("tel2puml/pv_to_puml/pv_to_puml.py", "pv_files_to_pv_streams, pv_job_files_to_event_sequence_streams, pv_job_file_to_event_sequence")
    chk.encode("tel2puml/pv_event_simulator.py", "transform_dict_into_pv_event")
    chk.encode("tel2puml/tel2puml_types.py", "PVEventMappingConfig, PVEventModel")
    chk.encode("tel2puml/otel_to_puml.py", "otel_to_puml (structure: one learner call after the dispatch)")
    chk.bounds = {"mapping": "default mapping; every injective assignment of {jobId, eventType, jobName} to 4 names (their own default names - "
                             "i.e. swaps and chains - and one fresh name), with the other four fields default or renamed",
                  "events": "two traces (2+1 events); empty / non-empty application name, event type equal to a key name, 0..2 predecessor links"}
    chk.outside = ["diagram equivalence itself (the learner, see C01)", "non-injective mappings (two fields mapped to one key lose data by construction)",
                   "the CLI argument layer", "field values outside the enumerated alphabet"]
    chk.assumptions = ["in-memory open()/os.makedirs for the two modules", "CrossHair path exhaustion over a finite domain"]
    chk.explanation = ("PARTIAL: decides 'the saved PV files hold the same events, links and field values as the in-memory stream, one file "
                       "per trace, including with one custom mapping for saving and loading'")
    structural(chk)
    tmo = 400 if tier == "quick" else 1200
    conds = [core.Cond("default mapping", HARNESS, "check", {"default": 1}, tmo),
             core.Cond("default mapping, 14 traces in one workflow", HARNESS, "check", {"default": 1, "many": 12}, tmo),
             *[core.Cond(f"custom mapping of three fields (jobId -> {n}), others default", HARNESS, "check", {"rest_fresh": 0, "m0": i}, tmo)
               for i, n in enumerate(["jobId", "eventType", "jobName", "fresh1"])],
             *[core.Cond(f"custom mapping of all fields (jobId -> {n})", HARNESS, "check", {"rest_fresh": 1, "m0": i}, tmo)
               for i, n in enumerate(["jobId", "eventType", "jobName", "fresh1"])],
             core.Cond("twin", HARNESS, "twin", {"rest_fresh": 1}, tmo, expect_violation=True)]
    return simple.run_conditions(chk, HARNESS, conds)


def replay_file(path: str) -> int:
    return simple.replay_file(HARNESS, path)
